#!/venv/bin/python
"""Entry point: run_check.py <ID> [--tier quick|thorough] [--replay file]"""
import os
import sys

try:
    _HASHSEED = str((int(os.environ.get("VERIF_SEED", "1")) - 1) % 4294967296)
except ValueError:
    _HASHSEED = "0"
if os.environ.get("PYTHONHASHSEED") != _HASHSEED:
    # hash randomisation is fixed at interpreter start: re-exec once with it pinned.  The pinned value
    # is a function of VERIF_SEED (seed 1 -> 0), so that a run is reproducible from its seed and
    # different seeds also see different str/bytes hash orders (set / dict iteration in the library)
    os.environ["PYTHONHASHSEED"] = _HASHSEED
    os.environ["PYTHONDONTWRITEBYTECODE"] = "1"
    os.execv(sys.executable, [sys.executable] + sys.argv)
sys.dont_write_bytecode = True
sys.path.insert(0, os.path.dirname(os.path.abspath(__file__)))
from vlib.harness import main  # noqa: E402

if __name__ == "__main__":
    try:
        rc = main()
    except SystemExit:
        raise
    except BaseException as e:  # noqa: BLE001
        import traceback

        print("HARNESS-ERROR: %s: %s" % (type(e).__name__, e))
        traceback.print_exc()
        rc = 2
    sys.stdout.flush()
    sys.exit(rc)
