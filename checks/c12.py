"""C12 - note cells and packed bit-fields are lossless; sub-field setters independent."""

from __future__ import annotations

import struct
from io import BytesIO

from hypothesis import strategies as st

from vlib import chunktools
from vlib import strategies as vs
from vlib.harness import PropertyViolation, run_property

PROPERTY_ID = "C12"
LEVEL = "exploration"
RULE = (
    "(a) complete enumeration of (old 16-bit word, byte sub-field, new value) triples of Note.ctl/val: thorough = all 65536 x 256 x 4 "
    "(exhaustive), quick = all 65536 old words x new in {0,1,0x55,0x80,0xFF} x 4; (b) complete enumeration of visualization words with "
    "defined enumerated parts (15360 old words) x 6 sub-fields x every new value; (c) SMII always x channel 0..16 (+ wide) and SFGS 8x8 "
    "through save/load in both contexts, complete; (d) Hypothesis: notes over every NOTECMD x vel 0..129 x 16-bit fields, pattern byte "
    "images of shapes up to 32 x 64 made of valid cells, through raw_data and through project save/load, arriving on a fresh pattern or on one that was read / bulk-edited / had cells replaced / held another image before; every field of a decoded cell is re-assigned and the bytes must follow; cells of loaded patterns are edited. distinct = triple / case hash; "
    "non-trivial = old word whose target sub-field is already non-zero (setters), non-empty cell (notes/patterns)"
    ' Also (added while the seeded-change rounds of DESIGN section 9 ran): Also: packed words (SFGS, SMII) changed one sub-field at a time on loaded objects and saved again; images arriving on patterns that were read / bulk-edited / resized / had cells moved or repeated.'
)
RULE += " Rounds 12-14 of DESIGN section 9 added: sub-field setters on cells whose other columns are set (every NOTECMD held as enum member / int / decoded); every kind of earlier use of a Pattern x images that are empty almost everywhere; Visualization objects obtained from a module and used after the module's word changed."
ASSUMPTIONS = [
    "cell layout '<BBHHH' (note, vel, module, ctl, val) as documented; ctl = controller<<8 | effect, val = XX<<8 | YY",
    "visualization bit layout from docs/sunvox-file-format.rst; clamped fields: oscilloscope_size 0..255, bg_transparency/shadow_opacity 0..3",
    "setters are exercised on a Visualization object (v = mod.visualization); write-through to the module is not claimed",
]

NOTECMDS = list(range(0, 121)) + [128, 129, 130, 131, 132, 133, 134, 140]


def exhaustive(tier):
    return tier == "thorough"


def plan(tier):
    descs = []
    n = 32 if tier == "thorough" else 16
    step = 65536 // n
    for i in range(n):
        descs.append({"kind": "note_setters", "lo": i * step, "hi": (i + 1) * step})
    for i in range(4):
        # the same setters on cells whose other columns are not empty: every note command x both ways of holding it
        descs.append({"kind": "note_setters_context", "part": i, "parts": 4})
    for i in range(8):
        descs.append({"kind": "viz", "part": i, "parts": 8})
    descs.append({"kind": "packed_io"})
    per = 300 if tier == "quick" else 4000
    for i in range(4):
        descs.append({"kind": "notes", "examples": per})
    for i in range(4):
        descs.append({"kind": "patterns", "examples": max(40, per // 6)})
    return descs


# --- (a) note sub-field setters --------------------------------------------------------

FIELDS = [("controller", "ctl", 8), ("effect", "ctl", 0), ("val_xx", "val", 8), ("val_yy", "val", 0)]


def run_note_setters(ctx, lo, hi):
    from rv.api import Note

    news = list(range(256)) if ctx.tier == "thorough" else [0, 1, 0x55, 0x80, 0xFF]
    n = Note()
    count = 0
    nontrivial = 0
    for fname, word, shift in FIELDS:
        other_word = "val" if word == "ctl" else "ctl"
        mask = 0xFF << shift
        for old in range(lo, hi):
            old_other = (old * 40503 + 12345) & 0xFFFF
            nt = 1 if old & mask else 0
            for new in news:
                setattr(n, word, old)
                setattr(n, other_word, old_other)
                setattr(n, fname, new)
                w = getattr(n, word)
                exp = (old & ~mask & 0xFFFF) | (new << shift)
                if w != exp or getattr(n, fname) != new or getattr(n, other_word) != old_other:
                    ctx.check(
                        False,
                        "C12.note.setter." + fname,
                        "Note.%s=0x%04x; .%s = 0x%02x -> %s=0x%04x (expected 0x%04x), reads back 0x%02x, other word 0x%04x (was 0x%04x)"
                        % (word, old, fname, new, word, w, exp, getattr(n, fname), getattr(n, other_word), old_other),
                        recipe={"op": "note_setter", "field": fname, "old": old, "new": new},
                    )
                count += 1
                nontrivial += nt
    # a setter must also leave note/vel/module alone (sampled once per shard range)
    n2 = Note(note=5, vel=77, module=9, ctl=0x1234, val=0x5678)
    for fname, word, shift in FIELDS:
        setattr(n2, fname, 0xAB)
        ctx.check((int(n2.note), n2.vel, n2.module) == (5, 77, 9), "C12.note.setter.other_fields", "setting %s changed note/vel/module: %r" % (fname, (n2.note, n2.vel, n2.module)), recipe={"op": "note_setter_other", "field": fname})
    ctx.case(count)
    ctx.mark_nontrivial_count("note_setters[%d:%d]" % (lo, hi), nontrivial)
    ctx.label("note_setter_range")
    ctx.sample({"op": "note_setters", "old_words": [lo, hi], "new_values": len(news), "fields": [f[0] for f in FIELDS]})


def run_note_setters_context(ctx, part, parts):
    """Sub-field setters on a cell whose note / velocity / module columns hold something: every NOTECMD member
    (held as the enum member, as a plain int as after decoding, and as an equal but distinct enum lookup),
    a few velocities and module numbers; old words around every byte boundary; every new byte value."""
    from rv.api import NOTECMD, Note

    cmds = list(NOTECMD)[part::parts]
    olds = [0x0000, 0x00FF, 0x0100, 0x7700, 0x77FF, 0x7800, 0x7801, 0x78FF, 0x7F00, 0x8000, 0xFF00, 0xFFFF, 0x1234]
    news = list(range(256)) if ctx.tier == "thorough" else list(range(0, 256, 7)) + [0x77, 0x78, 0x79, 0x7F, 0x80, 0xFF]
    count = 0
    for cmd in cmds:
        for held_as, noteval in (("enum", cmd), ("int", int(cmd)), ("raw", None)):
            vel, module = (int(cmd) * 7) % 130, (int(cmd) * 131) & 0xFFFF
            n = Note(note=cmd, vel=vel, module=module)
            if held_as == "int":
                n.note = noteval
            elif held_as == "raw":
                n.raw_data = struct.pack("<BBHHH", int(cmd), vel, module, 0, 0)
            for fname, word, shift in FIELDS:
                other_word = "val" if word == "ctl" else "ctl"
                mask = 0xFF << shift
                for old in olds:
                    old_other = (old * 40503 + 12345) & 0xFFFF
                    for new in news:
                        setattr(n, word, old)
                        setattr(n, other_word, old_other)
                        setattr(n, fname, new)
                        w = getattr(n, word)
                        exp = (old & ~mask & 0xFFFF) | (new << shift)
                        if w != exp or getattr(n, fname) != new or getattr(n, other_word) != old_other or (int(n.note), n.vel, n.module) != (int(cmd), vel, module):
                            ctx.check(
                                False,
                                "C12.note.setter_in_context." + fname,
                                "Note(note=%s held as %s, vel=%d, module=%d) %s=0x%04x; .%s = 0x%02x -> %s=0x%04x (expected 0x%04x), reads back 0x%02x, other word 0x%04x (was 0x%04x), note/vel/module %r"
                                % (cmd.name, held_as, vel, module, word, old, fname, new, word, w, exp, getattr(n, fname), getattr(n, other_word), old_other, (int(n.note), n.vel, n.module)),
                                key="C12.note.setter_in_context.%s:%s" % (fname, held_as),
                                recipe={"op": "note_setter_context", "cmd": int(cmd), "held_as": held_as, "field": fname, "old": old, "new": new},
                            )
                        count += 1
    ctx.case(count)
    ctx.mark_nontrivial_count("note_setters_context[%d/%d]" % (part, parts), count)
    ctx.label("note_setter_with_other_columns_set")
    ctx.sample({"op": "note_setters_context", "commands": len(cmds), "held_as": ["enum", "int", "raw"], "old_words": len(olds), "new_values": len(news)})


# --- (b) visualization word --------------------------------------------------------------

RESERVED_MASK = (0b11 << 6) | (0b111 << 13) | (0b1111 << 28)


def viz_words():
    for lm in range(5):
        for ori in range(2):
            for om in range(8):
                for tr in range(4):
                    for op in range(4):
                        for size in (0, 1, 0x7F, 0x80, 0xFE, 0xFF):
                            for res in (0, RESERVED_MASK):
                                yield lm | (ori << 5) | (om << 8) | (size << 16) | (tr << 24) | (op << 26) | res, (lm, ori, om, size, tr, op)


VIZ_FIELDS = [
    # name, shift, width, new values, normaliser
    ("level_mode", 0, 5, list(range(5)), lambda v: v & 0b11111),
    ("orientation", 5, 1, [0, 1], lambda v: v & 1),
    ("oscilloscope_mode", 8, 5, list(range(8)), lambda v: v & 0b11111),
    ("oscilloscope_size", 16, 8, list(range(256)) + [-1, 256, 300], lambda v: max(0, min(v, 0xFF))),
    ("bg_transparency", 24, 2, [0, 1, 2, 3, -1, 4, 300], lambda v: max(0, min(v, 3))),
    ("shadow_opacity", 26, 2, [0, 1, 2, 3, -1, 4, 300], lambda v: max(0, min(v, 3))),
]


def run_viz(ctx, part, parts):
    from rv.modules.module import LevelMode, Orientation, OscilloscopeMode, Visualization

    enums = {"level_mode": LevelMode, "orientation": Orientation, "oscilloscope_mode": OscilloscopeMode}
    count = 0
    nontrivial = 0
    for i, (word, parts_) in enumerate(viz_words()):
        if i % parts != part:
            continue
        for name, shift, width, news, norm in VIZ_FIELDS:
            mask = ((1 << width) - 1) << shift
            nt = 1 if word & mask else 0
            for new in news:
                v = Visualization(word)
                arg = enums[name](new) if name in enums and (new + word) % 2 else new
                try:
                    setattr(v, name, arg)
                    got = int(getattr(v, name))
                    val = int(v)
                except Exception as e:  # noqa: BLE001
                    ctx.check(False, "C12.viz.setter." + name, "word 0x%08x .%s = %r raised %r" % (word, name, arg, e), recipe={"op": "viz", "word": word, "field": name, "new": new})
                    count += 1
                    continue
                exp_val = (word & ~mask) | (norm(new) << shift)
                if got != norm(new) or val != exp_val:
                    ctx.check(
                        False,
                        "C12.viz.setter." + name,
                        "word 0x%08x .%s = %r -> 0x%08x (expected 0x%08x), reads back %r" % (word, name, new, val, exp_val, got),
                        recipe={"op": "viz", "word": word, "field": name, "new": new},
                    )
                count += 1
                nontrivial += nt
    # the word as it sits in a module: a Visualization object obtained from the module earlier is used after the module's
    # word has been changed another way.  Whether such an object writes through to the module is the library's
    # choice - but a sub-field assignment changes at most that sub-field of what the module holds now
    from rv.api import m as _m

    words = [w for i, (w, _) in enumerate(viz_words()) if i % (parts * 9) == part][:40]
    for wi, w1 in enumerate(words):
        w2 = words[(wi + 1) % len(words)]
        for name, shift, width, news, norm in VIZ_FIELDS:
            mask = ((1 << width) - 1) << shift
            new = news[(wi + shift) % len(news)]
            mod = _m.Amplifier()
            mod.visualization = w1
            kept = mod.visualization
            mod.visualization = w2
            second = mod.visualization
            other = VIZ_FIELDS[(VIZ_FIELDS.index((name, shift, width, news, norm)) + 1) % len(VIZ_FIELDS)]
            try:
                setattr(second, other[0], other[3][0])  # a sub-field set through a second object, whatever that does
                before = int(mod.visualization)
                setattr(kept, name, new)
                after = int(mod.visualization)
            except Exception as e:  # noqa: BLE001
                ctx.check(False, "C12.viz.module_view", "module word 0x%08x -> 0x%08x, kept object .%s = %r raised %r" % (w1, w2, name, new, e), key="C12.viz.module_view", recipe={"op": "viz_view", "w1": w1, "w2": w2, "field": name, "new": new})
                count += 1
                continue
            allowed = {before, (before & ~mask) | (norm(new) << shift)}
            ctx.check(after in allowed, "C12.viz.module_view", "the module held 0x%08x; .%s = %r through a Visualization object obtained earlier (when it held 0x%08x) leaves it holding 0x%08x: other sub-fields changed" % (before, name, new, w1, after), key="C12.viz.module_view", recipe={"op": "viz_view", "w1": w1, "w2": w2, "field": name, "new": new})
            count += 1
            nontrivial += 1
    ctx.label("viz_object_kept_across_a_change")
    ctx.case(count)
    ctx.mark_nontrivial_count("viz[%d/%d]" % (part, parts), nontrivial)
    ctx.label("viz_part")
    ctx.sample({"op": "viz", "part": part, "of": parts, "triples": count})


# --- (c) SMII / SFGS through save/load -----------------------------------------------------


def run_packed_io(ctx):
    from rv.api import Project, Synth, m, read_sunvox_file

    channels = list(range(17)) + [17, 31, 127, 255, 2**20, 2**30 - 1]
    for always in (False, True):
        for ch in channels:
            for cx in ("synth", "project"):
                ctx.case()
                mod = m.Amplifier(midi_in_always=always, midi_in_channel=ch)
                rec = {"op": "smii", "always": always, "channel": ch, "context": cx}
                if cx == "synth":
                    data = Synth(mod).read()
                    back = read_sunvox_file(BytesIO(data)).module
                else:
                    p = Project()
                    p.attach_module(mod)
                    data = p.read()
                    back = read_sunvox_file(BytesIO(data)).modules[1]
                sec = chunktools.module_sections(chunktools.parse(data))[2][-1]
                smii = [pl for cid, pl in sec if cid == b"SMII"]
                want = struct.pack("<I", int(always) | (ch << 1))
                ctx.check(smii == [want], "C12.smii.bytes", "SMII for always=%r channel=%d is %r, expected %r" % (always, ch, smii, want), recipe=rec)
                ctx.check(back.midi_in_always is always and back.midi_in_channel == ch, "C12.smii.roundtrip", "always=%r channel=%d loads as %r/%r (%s)" % (always, ch, back.midi_in_always, back.midi_in_channel, cx), recipe=rec)
                # in-memory independence: changing one leaves the other
                mod2 = m.Amplifier(midi_in_always=always, midi_in_channel=ch)
                mod2.midi_in_channel = (ch + 3) % 17
                ctx.check(mod2.midi_in_always is always, "C12.smii.independent", "setting channel changed always", recipe=rec)
                mod2.midi_in_always = not always
                ctx.check(mod2.midi_in_channel == (ch + 3) % 17, "C12.smii.independent", "setting always changed channel", recipe=rec)
                if always or ch:
                    ctx.mark_nontrivial(rec)
                # the loaded module's two sub-fields are changed one at a time and saved again
                for always2, ch2 in ((not always, ch), (always, (ch + 5) % 17), (always, 0)):
                    b2 = read_sunvox_file(BytesIO(data))
                    lm = b2.module if cx == "synth" else b2.modules[1]
                    if always2 != always:
                        lm.midi_in_always = always2
                    if ch2 != ch:
                        lm.midi_in_channel = ch2
                    d2 = b2.read()
                    sec2 = chunktools.module_sections(chunktools.parse(d2))[2][-1]
                    smii2 = [pl for cid, pl in sec2 if cid == b"SMII"]
                    want2 = struct.pack("<I", int(always2) | (ch2 << 1))
                    ctx.check(smii2 == [want2], "C12.smii.edit_after_load", "loaded always=%r channel=%d, then always=%r channel=%d: SMII is %r, expected %r" % (always, ch, always2, ch2, smii2, want2), recipe=dict(rec, op="smii_edit_after_load", new_always=always2, new_channel=ch2))
    # the same word on other module types and on the Output module (position 0 of every project)
    for tname in ("Output", "MetaModule", "Sampler", "MultiCtl", "VorbisPlayer", "Generator"):
        for always in (False, True):
            for ch in (0, 1, 16, 17):
                ctx.case()
                p = Project()
                mod = p.output if tname == "Output" else p.new_module(getattr(m, tname))
                mod.midi_in_always = always
                mod.midi_in_channel = ch
                rec = {"op": "smii_types", "type": tname, "always": always, "channel": ch}
                ok_mem = mod.midi_in_always is always and mod.midi_in_channel == ch
                ctx.check(ok_mem, "C12.smii.setter", "%s: midi_in_always <- %r, midi_in_channel <- %d read %r / %r" % (tname, always, ch, mod.midi_in_always, mod.midi_in_channel), recipe=rec)
                data = p.read()
                sec = chunktools.module_sections(chunktools.parse(data))[2][mod.index]
                smii = [pl for cid, pl in sec if cid == b"SMII"]
                want = struct.pack("<I", int(always) | (ch << 1))
                ctx.check(smii == [want], "C12.smii.bytes", "%s: SMII for always=%r channel=%d is %r, expected %r" % (tname, always, ch, smii, want), recipe=rec)
                back = read_sunvox_file(BytesIO(data)).modules[mod.index]
                ctx.check(back.midi_in_always is always and back.midi_in_channel == ch, "C12.smii.roundtrip", "%s: always=%r channel=%d loads as %r/%r" % (tname, always, ch, back.midi_in_always, back.midi_in_channel), recipe=rec)
                if always:
                    ctx.mark_nontrivial(rec)
    for a in range(8):
        for b in range(8):
            ctx.case()
            rec = {"op": "sfgs", "midi": a, "other": b}
            p = Project()
            p.receive_sync_midi = a
            p.receive_sync_other = b
            data = p.read()
            head = chunktools.module_sections(chunktools.parse(data))[0]
            sfgs = [pl for cid, pl in head if cid == b"SFGS"]
            want = struct.pack("<I", a | (b << 3))
            ctx.check(sfgs == [want], "C12.sfgs.bytes", "SFGS for midi=%d other=%d is %r, expected %r" % (a, b, sfgs, want), recipe=rec)
            q = read_sunvox_file(BytesIO(data))
            ctx.check(int(q.receive_sync_midi) == a and int(q.receive_sync_other) == b, "C12.sfgs.roundtrip", "midi=%d other=%d loads as %r/%r" % (a, b, q.receive_sync_midi, q.receive_sync_other), recipe=rec)
            if a and b:
                ctx.mark_nontrivial(rec)
            # the loaded project's sub-fields are changed one at a time (also inside a MetaModule's
            # project), it is saved, and the word in the file holds exactly the two current values
            for a2, b2 in ((a, (b + 3) % 8), ((a + 5) % 8, b), (0, b), (a, 0), (a, b & 3), (a & 1, b)):
                ctx.case()
                q = read_sunvox_file(BytesIO(data))
                if a2 != a:
                    q.receive_sync_midi = a2
                if b2 != b:
                    q.receive_sync_other = b2
                rec2 = {"op": "sfgs_edit_after_load", "midi": a, "other": b, "new_midi": a2, "new_other": b2}
                data2 = q.read()
                head2 = chunktools.module_sections(chunktools.parse(data2))[0]
                want2 = struct.pack("<I", a2 | (b2 << 3))
                sf2 = [pl for cid, pl in head2 if cid == b"SFGS"]
                ctx.check(sf2 == [want2], "C12.sfgs.edit_after_load.bytes", "loaded with midi=%d other=%d, then midi=%d other=%d: SFGS is %r, expected %r" % (a, b, a2, b2, sf2, want2), recipe=rec2)
                q2 = read_sunvox_file(BytesIO(data2))
                ctx.check(int(q2.receive_sync_midi) == a2 and int(q2.receive_sync_other) == b2, "C12.sfgs.edit_after_load.roundtrip", "loaded with midi=%d other=%d, then midi=%d other=%d: loads as %r/%r" % (a, b, a2, b2, q2.receive_sync_midi, q2.receive_sync_other), recipe=rec2)
            if (a + b) % 5 == 0:
                mm = m.MetaModule()
                mm.project.receive_sync_midi, mm.project.receive_sync_other = a, b
                lm = read_sunvox_file(BytesIO(Synth(mm).read())).module
                lm.project.receive_sync_other = b ^ 4
                lm2 = read_sunvox_file(BytesIO(Synth(lm).read())).module
                ctx.check(int(lm2.project.receive_sync_midi) == a and int(lm2.project.receive_sync_other) == b ^ 4, "C12.sfgs.edit_after_load.embedded", "embedded project loaded with other=%d then set to %d: loads as %r" % (b, b ^ 4, lm2.project.receive_sync_other), recipe={"op": "sfgs_embedded", "midi": a, "other": b})
    ctx.label("packed_io")
    ctx.sample({"op": "smii+sfgs", "channels": channels})


# --- (d) notes and patterns ------------------------------------------------------------------

u16 = vs.edge_int(0, 0xFFFF, extra=(0xFF, 0x100, 0x8000, 0x7FFF, 0xFF00, 0x00FF))
cell = st.tuples(st.sampled_from(NOTECMDS), vs.edge_int(0, 129), u16, u16, u16).map(list)


@st.composite
def single_field_cell(draw):
    """Tracker-style partial cells: exactly one column set (only a note, only a velocity,
    only a module number, only a controller/effect word, only a value)."""
    c = [0, 0, 0, 0, 0]
    i = draw(st.integers(0, 4))
    c[i] = draw([st.sampled_from(NOTECMDS[1:]), st.integers(1, 129), vs.edge_int(1, 0xFFFF), vs.edge_int(1, 0xFFFF), vs.edge_int(1, 0xFFFF)][i])
    return c


cell = st.one_of(cell, cell, single_field_cell())
sparse_cell = st.one_of(st.just([0, 0, 0, 0, 0]), cell, single_field_cell())


def check_note(c):
    from rv.api import NOTECMD, Note

    note, vel, module, ctl, val = c
    n = Note(note=NOTECMD(note), vel=vel, module=module, ctl=ctl, val=val)
    raw = n.raw_data
    want = struct.pack("<BBHHH", note, vel, module, ctl, val)
    if not isinstance(raw, bytes) or len(raw) != 8 or raw != want:
        raise PropertyViolation("C12.note.encode", "cell %r encodes to %r, expected %r" % (c, raw, want))
    n2 = Note()
    n2.raw_data = raw
    got = [int(n2.note), n2.vel, n2.module, n2.ctl, n2.val]
    if got != c:
        raise PropertyViolation("C12.note.decode", "bytes %r decode to %r, expected %r" % (raw, got, c))
    if n2.raw_data != raw:
        raise PropertyViolation("C12.note.reencode", "decoded note re-encodes to %r, not %r" % (n2.raw_data, raw))
    sub = [n2.controller, n2.effect, n2.val_xx, n2.val_yy]
    wsub = [ctl >> 8, ctl & 0xFF, val >> 8, val & 0xFF]
    if sub != wsub:
        raise PropertyViolation("C12.note.subfields", "cell %r sub-fields read %r, expected %r" % (c, sub, wsub))
    # a decoded cell is edited field by field: the bytes follow every assignment (nothing of the
    # bytes it was decoded from is kept), the other fields stay
    cmds = list(NOTECMD)
    new = [int(cmds[(cmds.index(NOTECMD(note)) + 1 + vel) % len(cmds)]), (vel + 1 + module) % 130, module ^ 0x0101, ctl ^ 0x0110, val ^ 0x8001]
    for fi, fname in enumerate(("note", "vel", "module", "ctl", "val")):
        for prime in (False, True):
            n3 = Note()
            n3.raw_data = raw
            if prime:
                n3.raw_data  # noqa: B018 - the bytes have been asked for once before the edit
            setattr(n3, fname, NOTECMD(new[fi]) if fi == 0 else new[fi])
            exp = list(c)
            exp[fi] = new[fi]
            got3 = n3.raw_data
            if got3 != struct.pack("<BBHHH", *exp):
                raise PropertyViolation("C12.note.edit_after_decode", "cell %r decoded, %s <- %r%s: encodes to %r, expected %r" % (c, fname, new[fi], " (raw_data read before)" if prime else "", got3, struct.pack("<BBHHH", *exp)), key="C12.note.edit_after_decode:" + fname)
            if [int(n3.note), n3.vel, n3.module, n3.ctl, n3.val] != exp:
                raise PropertyViolation("C12.note.edit_after_decode.fields", "cell %r decoded, %s <- %r: fields read %r" % (c, fname, new[fi], [int(n3.note), n3.vel, n3.module, n3.ctl, n3.val]), key="C12.note.edit_after_decode.fields:" + fname)
    c3 = n.clone()
    if [int(c3.note), c3.vel, c3.module, c3.ctl, c3.val] != c:
        raise PropertyViolation("C12.note.clone", "clone of %r is %r" % (c, [int(c3.note), c3.vel, c3.module, c3.ctl, c3.val]))


@st.composite
def pattern_case(draw):
    tracks = draw(vs.edge_int(1, 32))
    lines = draw(vs.edge_int(1, 64))
    dense = draw(st.booleans())
    cells = draw(st.lists(cell if dense else sparse_cell, min_size=tracks * lines, max_size=tracks * lines))
    # what happened to the Pattern object before the image arrives: nothing, its data was looked at, it
    # was bulk-edited, one of its cells was replaced by another Note object, another image was loaded
    prior = draw(st.sampled_from([None, None, "read", "set_via_fn", "set_via_gen", "replace_cell", "other_image", "resized_wider", "resized_narrower", "resized_lines", "cells_moved"]))
    return {"tracks": tracks, "lines": lines, "cells": cells, "via": draw(st.sampled_from(["raw_data", "notes"])), "prior": prior}


def check_pattern(case):
    from rv.api import NOTECMD, Pattern, Project, read_sunvox_file

    tracks, lines, cells = case["tracks"], case["lines"], case["cells"]
    image = b"".join(struct.pack("<BBHHH", *c) for c in cells)
    p = Pattern(tracks=tracks, lines=lines)
    prior = case.get("prior")
    if prior and prior.startswith("resized"):
        # the pattern had another shape, was in use, and is then given the shape of the image:
        # tracks / lines are assigned and clear() rebuilds the grid
        t0 = min(32, tracks + 3) if prior == "resized_narrower" else max(1, tracks - 2) if prior == "resized_wider" else tracks
        l0 = lines + 5 if prior != "resized_lines" else max(1, lines // 2)
        p = Pattern(tracks=t0, lines=l0)
        p.data[l0 - 1][t0 - 1].vel = 77
        p.raw_data  # noqa: B018
        p.tracks, p.lines = tracks, lines
        p.clear()
    elif prior == "read":
        p.raw_data  # noqa: B018
        p.data[lines - 1][tracks - 1].vel  # noqa: B018
    elif prior == "set_via_fn":
        from rv.api import Note

        p.set_via_fn(lambda pat, ln, tr: Note(vel=1 + (ln + tr) % 128, module=tr + 1))
    elif prior == "set_via_gen":
        from rv.api import Note

        p.set_via_gen(lambda pat, new: iter([(lines - 1, tracks - 1, Note(ctl=0x0102, val=0x0304)), (0, 0, Note(module=7))]))
    elif prior == "cells_moved":
        # a bulk edit that moves the pattern's existing Note objects (insert an empty line at the top /
        # rotate the tracks), after which every cell must still be a cell of its own
        from rv.api import Note

        def shift_down(pat, new):
            for ln in range(lines - 1):
                for tr in range(tracks):
                    yield ln + 1, tr, pat.data[ln][tr]
            for tr in range(tracks):
                yield 0, tr, Note()

        p.set_via_gen(shift_down)
        p.set_via_fn(lambda pat, ln, tr: pat.data[ln][(tr + 1) % tracks])
        # ... and one that repeats existing notes in further cells without touching where they came from
        # (every existing note goes to exactly one further cell: the line below, or the next track on the last line)
        p.set_via_gen(lambda pat, new: iter([(ln + 1, tr, pat.data[ln][tr]) for ln in range(lines - 1) for tr in range(tracks)] + [(lines - 1, tr + 1, pat.data[lines - 1][tr]) for tr in range(0, tracks - 1, 2)] if lines == 1 else [(ln + 1, tr, pat.data[ln][tr]) for ln in range(lines - 1) for tr in range(tracks)]))
    elif prior == "replace_cell":
        from rv.api import Note

        p.data[lines // 2][tracks // 2] = Note(vel=9, module=3)
        p.data[0][0] = Note(note=NOTECMD.C4)
    elif prior == "other_image":
        p.raw_data = bytes([1, 2, 3, 0, 4, 5, 6, 7]) * (tracks * lines)
    if case["via"] == "raw_data":
        p.raw_data = image
    else:
        k = 0
        for ln in range(lines):
            for tr in range(tracks):
                n = p.data[ln][tr]
                c = cells[k]
                n.note, n.vel, n.module, n.ctl, n.val = NOTECMD(c[0]), c[1], c[2], c[3], c[4]
                k += 1
    if p.raw_data != image:
        raise PropertyViolation("C12.pattern.raw_data", "pattern %dx%d raw_data differs from the image it was built from" % (tracks, lines))
    # row-major: cell (l, t) is at (l*tracks+t)*8
    k = 0
    for ln in range(lines):
        for tr in range(tracks):
            n = p.data[ln][tr]
            if [int(n.note), n.vel, n.module, n.ctl, n.val] != cells[k]:
                raise PropertyViolation("C12.pattern.row_major", "cell (line %d, track %d) is %r, expected %r" % (ln, tr, [int(n.note), n.vel, n.module, n.ctl, n.val], cells[k]))
            k += 1
    proj = Project()
    proj.attach_pattern(p)
    data = proj.read()
    head, pats, mods, tail = chunktools.module_sections(chunktools.parse(data))
    pdta = [pl for cid, pl in pats[0] if cid == b"PDTA"]
    if pdta != [image]:
        raise PropertyViolation("C12.pattern.pdta", "PDTA of written file differs from the image (%d vs %d bytes)" % (len(pdta[0]) if pdta else -1, len(image)))
    q = read_sunvox_file(BytesIO(data))
    qp = q.patterns[0]
    if (qp.tracks, qp.lines) != (tracks, lines) or qp.raw_data != image:
        raise PropertyViolation("C12.pattern.load", "loaded pattern %dx%d raw_data differs from the image" % (qp.tracks, qp.lines))
    if q.read() != data:
        raise PropertyViolation("C12.pattern.resave", "loading and saving the pattern image changed the file")
    # one cell of the loaded pattern is rewritten field by field: the image changes in exactly those 8 bytes
    k0 = (len(cells) * 2) // 3
    ln, tr = divmod(k0, tracks)
    n = qp.data[ln][tr]
    c = list(cells[k0])
    for fi, fname in enumerate(("vel", "module", "ctl", "val"), 1):
        c[fi] = (c[fi] + 1 + k0) % (130 if fi == 1 else 0x10000)
        setattr(n, fname, c[fi])
        want = image[: k0 * 8] + struct.pack("<BBHHH", *c) + image[k0 * 8 + 8 :]
        if qp.raw_data != want:
            raise PropertyViolation("C12.pattern.edit_after_load", "loaded pattern %dx%d: cell %d %s <- %r is not what raw_data holds" % (tracks, lines, k0, fname, c[fi]), key="C12.pattern.edit_after_load:" + fname)
    q2 = read_sunvox_file(BytesIO(q.read()))
    if q2.patterns[0].raw_data != want:
        raise PropertyViolation("C12.pattern.edit_after_load.saved", "loaded pattern %dx%d: edited cell %d is not what the saved file holds" % (tracks, lines, k0))


def run_shard(ctx, desc):
    k = desc["kind"]
    if k == "note_setters":
        run_note_setters(ctx, desc["lo"], desc["hi"])
    elif k == "note_setters_context":
        run_note_setters_context(ctx, desc["part"], desc["parts"])
    elif k == "viz":
        run_viz(ctx, desc["part"], desc["parts"])
    elif k == "packed_io":
        run_packed_io(ctx)
    elif k == "notes":

        def body(c):
            ctx.case()
            check_note(c)
            ctx.label("note")
            if any(c):
                ctx.mark_nontrivial(c)
            ctx.sample({"op": "note", "cell": c})

        run_property(ctx, cell, body, desc["examples"], tag="notes")
    elif k == "patterns":

        def body(case):
            ctx.case()
            check_pattern(case)
            ctx.label("pattern_" + case["via"])
            if case.get("prior"):
                ctx.label("pattern_image_after_" + case["prior"])
            if any(any(c) for c in case["cells"]):
                ctx.mark_nontrivial(case)
            ctx.sample({"op": "pattern", "tracks": case["tracks"], "lines": case["lines"], "via": case["via"], "first_cells": case["cells"][:3]})

        # every kind of earlier use once with an image that is empty almost everywhere (and once with a full one)
        for prior in [None, "read", "set_via_fn", "set_via_gen", "replace_cell", "other_image", "resized_wider", "resized_narrower", "resized_lines", "cells_moved"]:
            for shape in ((1, 1), (2, 3), (3, 4)):
                for fill in ("empty_but_one", "full"):
                    n_ = shape[0] * shape[1]
                    cells_ = [[0, 0, 0, 0, 0] for _ in range(n_)] if fill != "full" else [[1 + k_ % 100, 1 + k_ % 120, k_ + 1, 0x0101 + k_, 0x0203 + k_] for k_ in range(n_)]
                    if fill != "full":
                        cells_[-1] = [5, 6, 7, 8, 9]
                    case = {"tracks": shape[0], "lines": shape[1], "cells": cells_, "via": "raw_data", "prior": prior}
                    try:
                        body(case)
                    except PropertyViolation as v:
                        ctx.check(False, v.sub_oracle, "after %s: %s" % (prior, v.detail), key=v.key, recipe={"case": case})
        run_property(ctx, pattern_case(), body, desc["examples"], tag="patterns")


def replay(ctx, doc):
    from rv.api import Note
    from rv.modules.module import Visualization

    r = doc["recipe"]
    if "case" in r:
        c = r["case"]
        if isinstance(c, list):
            check_note(c)
        else:
            check_pattern(c)
        return
    op = r.get("op")
    if op == "note_setter":
        fname, word, shift = next(f for f in FIELDS if f[0] == r["field"])
        n = Note()
        setattr(n, word, r["old"])
        setattr(n, fname, r["new"])
        mask = 0xFF << shift
        exp = (r["old"] & ~mask & 0xFFFF) | (r["new"] << shift)
        if getattr(n, word) != exp or getattr(n, fname) != r["new"]:
            raise PropertyViolation("C12.note.setter." + fname, "old 0x%04x, %s=0x%02x -> 0x%04x, expected 0x%04x" % (r["old"], fname, r["new"], getattr(n, word), exp))
    elif op == "note_setter_context":
        from rv.api import NOTECMD

        fname, word, shift = next(f for f in FIELDS if f[0] == r["field"])
        cmd = NOTECMD(r["cmd"])
        vel, module = (int(cmd) * 7) % 130, (int(cmd) * 131) & 0xFFFF
        n = Note(note=cmd, vel=vel, module=module)
        if r["held_as"] == "int":
            n.note = int(cmd)
        elif r["held_as"] == "raw":
            n.raw_data = struct.pack("<BBHHH", int(cmd), vel, module, 0, 0)
        other_word = "val" if word == "ctl" else "ctl"
        old_other = (r["old"] * 40503 + 12345) & 0xFFFF
        setattr(n, word, r["old"])
        setattr(n, other_word, old_other)
        setattr(n, fname, r["new"])
        mask = 0xFF << shift
        exp = (r["old"] & ~mask & 0xFFFF) | (r["new"] << shift)
        if getattr(n, word) != exp or getattr(n, fname) != r["new"] or getattr(n, other_word) != old_other or (int(n.note), n.vel, n.module) != (int(cmd), vel, module):
            raise PropertyViolation("C12.note.setter_in_context." + fname, "note %s held as %s: old 0x%04x, %s=0x%02x -> 0x%04x, expected 0x%04x" % (cmd.name, r["held_as"], r["old"], fname, r["new"], getattr(n, word), exp))
    elif op == "viz_view":
        from rv.api import m as _m

        name, shift, width, news, norm = next(f for f in VIZ_FIELDS if f[0] == r["field"])
        mask = ((1 << width) - 1) << shift
        mod = _m.Amplifier()
        mod.visualization = r["w1"]
        kept = mod.visualization
        mod.visualization = r["w2"]
        before = int(mod.visualization)
        setattr(kept, name, r["new"])
        after = int(mod.visualization)
        if after not in {before, (before & ~mask) | (norm(r["new"]) << shift)}:
            raise PropertyViolation("C12.viz.module_view", "module held 0x%08x, now 0x%08x" % (before, after))
    elif op == "viz":
        name, shift, width, news, norm = next(f for f in VIZ_FIELDS if f[0] == r["field"])
        v = Visualization(r["word"])
        setattr(v, name, r["new"])
        mask = ((1 << width) - 1) << shift
        exp = (r["word"] & ~mask) | (norm(r["new"]) << shift)
        if int(v) != exp or int(getattr(v, name)) != norm(r["new"]):
            raise PropertyViolation("C12.viz.setter." + name, "word 0x%08x -> 0x%08x, expected 0x%08x" % (r["word"], int(v), exp))
    else:
        from vlib.harness import Ctx

        c2 = Ctx(ctx.prop, ctx.tier, ctx.seed, 0, 1, [])
        run_packed_io(c2)
        if c2.failures:
            f = c2.failures[0]
            raise PropertyViolation(f["sub_oracle"], f["detail"], f["key"])
