"""C10 - stored controller encodings are exact bijections on each controller's range.

Complete enumeration (thorough) of every (module type, controller, unit variant, value)
point; expected stored/pattern values are computed from the YAML bounds only.
"""

from __future__ import annotations

from vlib import specmodel

PROPERTY_ID = "C10"
LEVEL = "exploration"
RULE = (
    "enumeration of (type, controller, unit variant, value) points from specs/fileformat.yaml: "
    "thorough = every integer of every range (exhaustive); quick = every range of span <= 4096 "
    "completely, larger ones at both ends +-64 and stride 7; plus every enum member, both booleans and "
    "3 representative MetaModule user-defined controllers over 0..44100; unit-dependent ranges are visited on an object whose unit was switched through every other member first (alternately by assignment and set_raw), right after set_raw, after loading, and on modules loaded from files that carry only the first k controller values. Every point is distinct by "
    "construction; non-trivial = point of a range with negative minimum, or a span that does not divide "
    "32768, or a unit-dependent range, or an enum member with non-zero value"
    ' Also (added while the seeded-change rounds of DESIGN section 9 ran): Also: the CVAL both writers put into the file and what loading gives back (ends, middle, -2..1, 255/256, 32767/32768; every value of no-offset ranges), mapped MetaModule user controllers holding a value of their own, encodings with the strictness flag off, and all axes again after user subclasses were derived.'
)
RULE += " Rounds 12-14 of DESIGN section 9 added: mapped user-defined controllers also onto compact, 0..32768 and no-offset targets; their pattern value equals the mapped controller's own."
ASSUMPTIONS = [
    "the YAML bounds (min/max/compact/no_offset/ranges) are the declared ranges",
    "values are assigned with setattr in strict mode; stored values observed with Module.get_raw / set_raw; pattern values with Controller.pattern_value",
]

CHUNK = 12000


def exhaustive(tier):
    return tier == "thorough"


def axes():
    """Yield (cls_name, ctl_name, kind, unit_ctl, unit_member, lo, hi)."""
    spec = specmodel.load()
    for name, mt in sorted(spec.items()):
        for c in mt.controllers:
            if c.kind in ("range", "compact", "no_offset"):
                yield (name, c.name, c.kind, None, None, c.min, c.max)
            elif c.kind == "dependent":
                for unit, (lo, hi) in c.ranges.items():
                    yield (name, c.name, c.kind, c.depends_on, unit, lo, hi)
            elif c.kind == "enum":
                yield (name, c.name, "enum", None, None, 0, 0)
            elif c.kind == "bool":
                yield (name, c.name, "bool", None, None, 0, 1)


def points_for(tier, lo, hi):
    """List of (start, stop, step) segments covering what this tier explores."""
    span = hi - lo
    if tier == "thorough" or span <= 4096:
        return [(lo, hi + 1, 1)]
    segs = [(lo, lo + 65, 1), (lo + 65 + ((7 - (65 % 7)) % 7), hi - 64, 7), (hi - 64, hi + 1, 1)]
    return segs


def plan(tier):
    work = []
    for ax in axes():
        name, cname, kind, uctl, unit, lo, hi = ax
        if kind in ("enum", "bool"):
            work.append((1, [ax, None]))
            continue
        for start, stop, step in points_for(tier, lo, hi):
            s = start
            while s < stop:
                e = min(stop, s + CHUNK * step)
                n = len(range(s, e, step))
                if n:
                    work.append((n, [ax, (s, e, step)]))
                s = e
    # user-defined representatives
    for k in (1, 48, 96):
        for start, stop, step in points_for(tier, 0, 44100):
            s = start
            while s < stop:
                e = min(stop, s + CHUNK * step)
                n = len(range(s, e, step))
                if n:
                    work.append((n, [("MetaModule", "user_defined_%d" % k, "userdef", None, None, 0, 44100), (s, e, step)]))
                s = e
    work.sort(key=lambda w: -w[0])
    nsh = 32 if tier == "thorough" else 16
    shards = [{"kind": "enum", "items": [], "n": 0} for _ in range(nsh)]
    for n, item in work:
        tgt = min(shards, key=lambda s: s["n"])
        tgt["items"].append(item)
        tgt["n"] += n
    out = [s for s in shards if s["items"]]
    # what the two writers put into the file for a controller equals its stored value
    names = sorted(specmodel.load())
    for i in range(4):
        out.append({"kind": "file_cvals", "types": names[i::4], "mapped": i == 0})
    # the stock classes once more, in a process in which a program has derived classes of its own from them
    out.append({"kind": "after_user_subclasses"})
    return out


def expected_raw(kind, lo, v):
    if kind == "no_offset":
        return v
    return v - lo if lo < 0 else v


def run_axis(ctx, classes, ax, seg):
    from rv.controller import Controller

    name, cname, kind, uctl, unit, lo, hi = ax
    spec = specmodel.load()
    cls = classes[spec[name].mtype]
    mod = cls()
    ctl = cls.controllers[cname]
    ent = "%s.%s" % (name, cname) + ("[%s]" % unit if unit else "")
    if kind == "enum":
        sc = spec[name].ctl(cname)
        vt = ctl.value_type
        seen = set()
        for mname, mval in sc.members.items():
            ctx.case()
            member = getattr(vt, mname, None)
            rec = {"entity": ent, "member": mname}
            if not ctx.check(member is not None, "C10.enum.member_exists", "%s has no member %s" % (ent, mname), recipe=rec):
                continue
            setattr(mod, cname, member)
            r = mod.get_raw(cname)
            ctx.check(r == mval and type(r) is int or r == mval, "C10.enum.raw", "%s=%s stored as %r, spec value %r" % (ent, mname, r, mval), recipe=rec)
            ctx.check(r not in seen, "C10.enum.injective", "%s: stored value %r used twice" % (ent, r), recipe=rec)
            seen.add(r)
            other = next(iter(m for m in vt if m is not member), member)
            setattr(mod, cname, other)
            mod.set_raw(cname, mval)
            got = getattr(mod, cname)
            ctx.check(got is member or got == member and isinstance(got, vt), "C10.enum.roundtrip", "%s: set_raw(%r) reads %r, wanted %r" % (ent, mval, got, member), recipe=rec)
            if mval != 0:
                ctx.mark_nontrivial(["enum", ent, mname])
        ctx.sample({"axis": ent, "kind": "enum", "members": len(sc.members)})
        return
    if kind == "bool":
        for v in (False, True):
            ctx.case()
            rec = {"entity": ent, "value": v}
            setattr(mod, cname, v)
            r = mod.get_raw(cname)
            ctx.check(r == int(v) and not isinstance(r, bool) or r == int(v), "C10.bool.raw", "%s=%r stored as %r" % (ent, v, r), recipe=rec)
            setattr(mod, cname, not v)
            mod.set_raw(cname, int(v))
            got = getattr(mod, cname)
            ctx.check(got is v or got == v, "C10.bool.roundtrip", "%s: set_raw(%d) reads %r" % (ent, int(v), got), recipe=rec)
        ctx.mark_nontrivial(["bool", ent])
        return

    start, stop, step = seg
    if uctl:
        # the object has a past: the dependent range was resolved under every other unit first, and the
        # unit under test is selected alternately by assignment and by loading its stored value (set_raw)
        uvt = cls.controllers[uctl].value_type
        sc_unit = spec[name].ctl(uctl)
        for j, other in enumerate(sc_unit.members):
            if other == unit:
                continue
            if j % 2:
                setattr(mod, uctl, getattr(uvt, other))
            else:
                mod.set_raw(uctl, sc_unit.members[other])
            olo, ohi = spec[name].ctl(cname).ranges.get(other, (0, 0))
            setattr(mod, cname, ohi)
            ctl.pattern_value(mod, ohi)
            mod.get_raw(cname)
        if (start + len(unit)) % 2:
            setattr(mod, uctl, getattr(uvt, unit))
        else:
            mod.set_raw(uctl, sc_unit.members[unit])
            ctx.label("unit_selected_by_set_raw")
    if uctl and start == lo:
        # right after the unit arrived as a stored value (set_raw, i.e. what loading does) - no assignment
        # in between - and on a module loaded from a file, the dependent controller is already scaled
        # by the new unit's range
        from io import BytesIO

        from rv.api import Synth, read_sunvox_file

        m2 = cls()
        ctl.pattern_value(m2, 0)
        m2.get_raw(cname)
        m2.set_raw(uctl, spec[name].ctl(uctl).members[unit])
        loaded = read_sunvox_file(BytesIO(Synth(mod).read())).module
        objs = [("after set_raw of the unit", m2), ("after loading", loaded)]
        # modules loaded from files of older SunVox versions, which carry fewer controller values than
        # the type has today (none at all / everything before the unit controller), then given the unit
        from vlib import chunktools

        full = chunktools.parse(Synth(cls()).read())
        names = list(cls.controllers)
        for keep in sorted({0, names.index(uctl), min(names.index(uctl), names.index(cname))}):
            seen_cval = 0
            short = []
            for cid, pl in full:
                if cid == b"CVAL":
                    seen_cval += 1
                    if seen_cval > keep:
                        continue
                short.append((cid, pl))
            old = read_sunvox_file(BytesIO(chunktools.build(short))).module
            if keep % 2:
                old.set_raw(uctl, spec[name].ctl(uctl).members[unit])
            else:
                setattr(old, uctl, getattr(cls.controllers[uctl].value_type, unit))
            objs.append(("loaded from a file with only %d controller values, then given the unit" % keep, old))
            ctx.label("short_file_then_unit")
        import rv.errors

        for who, obj in objs:
            for v, want in ((lo, 0), (hi, 0x8000)):
                p = ctl.pattern_value(obj, v)
                ctx.check(p == want, "C10.pattern.unit_switch", "%s %s: pattern_value(%d)=%r, expected %d" % (ent, who, v, p, want), recipe={"entity": ent, "unit": unit, "value": v})
                # the encodings do not depend on whether out-of-range values currently raise or warn
                prev_flag = rv.errors.RAISE_CONTROLLER_VALUE_ERRORS
                rv.errors.RAISE_CONTROLLER_VALUE_ERRORS = False
                try:
                    p2 = ctl.pattern_value(obj, v)
                    vt2 = ctl.instance_value_type(obj)
                finally:
                    rv.errors.RAISE_CONTROLLER_VALUE_ERRORS = prev_flag
                ctx.check(p2 == want and (vt2.min, vt2.max) == (lo, hi), "C10.pattern.lenient_mode", "%s %s, while value errors only warn: pattern_value(%d)=%r (expected %d), range %r..%r (expected %d..%d)" % (ent, who, v, p2, want, vt2.min, vt2.max, lo, hi), recipe={"entity": ent, "unit": unit, "value": v})
            if obj is not m2 and obj is not loaded:
                setattr(obj, cname, hi)
                ctx.check(obj.get_raw(cname) == hi - (lo if lo < 0 else 0), "C10.raw.unit_switch", "%s %s: %d stored as %r" % (ent, who, hi, obj.get_raw(cname)), recipe={"entity": ent, "unit": unit, "value": hi})
        ctx.case(2 * len(objs))
    span = hi - lo
    off = lo if (lo < 0 and kind != "no_offset") else 0
    nontrivial = lo < 0 or (32768 % span != 0 if span else True) or kind == "dependent"
    get_raw = mod.get_raw
    set_raw = mod.set_raw
    cv = mod.controller_values
    userdef = kind == "userdef"
    if userdef:
        ud = mod.user_defined[int(cname.rsplit("_", 1)[1]) - 1]
    prev_pat = None
    prev_raw = None
    n = 0
    bad = 0
    for v in range(start, stop, step):
        n += 1
        if userdef:
            # assigning an unmapped user-defined controller is not a supported operation;
            # the value is installed through the descriptor's own validation path
            ud.set_initial(mod, v)
        else:
            setattr(mod, cname, v)
        r = get_raw(cname)
        er = v - off
        if r != er or r < 0 and kind != "no_offset":
            bad += 1
            ctx.check(False, "C10.raw.offset", "%s: v=%d stored as %r, expected %d" % (ent, v, r, er), recipe={"entity": ent, "unit": unit, "value": v})
        if prev_raw is not None and r == prev_raw:
            ctx.check(False, "C10.raw.injective", "%s: v=%d and its predecessor share stored value %r" % (ent, v, r), recipe={"entity": ent, "unit": unit, "value": v})
        prev_raw = r
        cv[cname] = None  # make the effect of set_raw observable
        set_raw(cname, r)
        got = cv.get(cname)
        if got != v or isinstance(got, bool):
            ctx.check(False, "C10.raw.roundtrip", "%s: set_raw(%r) reads back %r, wanted %d" % (ent, r, got, v), recipe={"entity": ent, "unit": unit, "value": v})
        got2 = getattr(mod, cname)
        if got2 != v:
            ctx.check(False, "C10.raw.roundtrip_getattr", "%s: after set_raw(%r) attribute reads %r, wanted %d" % (ent, r, got2, v), recipe={"entity": ent, "unit": unit, "value": v})
        if not userdef:
            p = ctl.pattern_value(mod, v)
            if kind == "compact":
                if p != v - lo:
                    ctx.check(False, "C10.pattern.compact", "%s: pattern_value(%d)=%r, expected %d" % (ent, v, p, v - lo), recipe={"entity": ent, "unit": unit, "value": v})
            else:
                okp = isinstance(p, int) and 0 <= p <= 0x8000
                if v == lo:
                    okp = okp and p == 0
                if v == hi:
                    okp = okp and p == 0x8000
                if prev_pat is not None and okp:
                    okp = p >= prev_pat
                if not okp:
                    ctx.check(False, "C10.pattern.scaled", "%s: pattern_value(%d)=%r (prev %r); need 0 at min %d, 0x8000 at max %d, monotone within 0..0x8000" % (ent, v, p, prev_pat, lo, hi), recipe={"entity": ent, "unit": unit, "value": v})
                prev_pat = p if isinstance(p, int) else prev_pat
    ctx.case(n)
    if nontrivial:
        ctx.mark_nontrivial_count(ent, n)
    ctx.label("kind_" + kind)
    if lo < 0:
        ctx.label("negative_min_axis")
    ctx.sample({"axis": ent, "kind": kind, "range": [lo, hi], "segment": [start, stop, step], "points": n})


def cvals_in(data, in_project):
    import struct

    from vlib import chunktools

    chunks = chunktools.parse(data)
    if in_project:
        head, pats, mods, tail = chunktools.module_sections(chunks)
        chunks = mods[-1]
    return [struct.unpack("<i", pl)[0] for cid, pl in chunks if cid == b"CVAL"]


def run_file_cvals(ctx, desc):
    """The stored value of a controller as both writers (Synth / Project) put it into the file, and
    what loading that file gives back, for the ends and the middle of every range under every unit;
    and for MetaModule user-defined controllers mapped onto embedded controllers while holding a
    value that differs from the embedded controller's (as after loading a file)."""
    from io import BytesIO

    import rv.modules as m
    from rv.api import Project, Synth, read_sunvox_file

    spec = specmodel.load()
    classes = dict(m.MODULE_CLASSES)
    for name in desc["types"]:
        mt = spec[name]
        if name == "Output":
            continue
        cls = classes[mt.mtype]
        for ordinal, c in enumerate(mt.controllers):
            variants = []
            if c.kind in ("range", "compact", "no_offset"):
                variants = [(None, None, c.min, c.max, c.kind)]
            elif c.kind == "dependent":
                variants = [(c.depends_on, u, lo, hi, "range") for u, (lo, hi) in c.ranges.items()]
            for uctl, unit, lo, hi, kind in variants:
                vals = {lo, hi, (lo + hi) // 2, min(hi, lo + 1)} | {x for x in (-2, -1, 0, 1, 255, 256, 32767, 32768) if lo <= x <= hi}
                if kind == "no_offset" and hi - lo <= 1024:
                    vals = set(range(lo, hi + 1))  # stored as they are, negative ones included: every value through the file
                for v in sorted(vals):
                    ctx.case()
                    mod = cls()
                    if uctl:
                        setattr(mod, uctl, getattr(cls.controllers[uctl].value_type, unit))
                    setattr(mod, c.name, v)
                    want = expected_raw(kind, lo, v)
                    rec = {"entity": "%s.%s" % (name, c.name) + ("[%s]" % unit if unit else ""), "unit": unit, "value": v, "file": True}
                    sdata = Synth(mod).read()
                    got_s = cvals_in(sdata, False)
                    p = Project()
                    p.attach_module(mod)
                    pdata = p.read()
                    got_p = cvals_in(pdata, True)
                    ok = len(got_s) > ordinal and got_s[ordinal] == want and len(got_p) > ordinal and got_p[ordinal] == want
                    ctx.check(ok, "C10.file.cval", "%s=%d: file holds %r (synth) / %r (project), expected %d" % (rec["entity"], v, got_s[ordinal : ordinal + 1], got_p[ordinal : ordinal + 1], want), key="C10.file.cval:" + rec["entity"], recipe=rec)
                    b1 = getattr(read_sunvox_file(BytesIO(sdata)).module, c.name)
                    b2 = getattr(read_sunvox_file(BytesIO(pdata)).modules[1], c.name)
                    ctx.check(b1 == v and b2 == v, "C10.file.back", "%s=%d: loads as %r (synth) / %r (project)" % (rec["entity"], v, b1, b2), key="C10.file.back:" + rec["entity"], recipe=rec)
                    if lo < 0 or uctl:
                        ctx.mark_nontrivial(["file", rec["entity"], v])
        ctx.sample({"axis": name, "kind": "file_cvals", "controllers": len(mt.controllers)})
    ctx.label("file_cvals")
    if not desc.get("mapped"):
        return
    # mapped user-defined controllers of a MetaModule
    targets = [("Amplifier", "balance"), ("Amplifier", "volume"), ("Amplifier", "bipolar_dc_offset"), ("Generator", "panning"), ("Lfo", "amplitude"), ("MultiSynth", "transpose"), ("MultiSynth", "random_phase"), ("VorbisPlayer", "finetune"), ("VorbisPlayer", "transpose")]
    for tname, cname in targets:
        tc = spec[tname].ctl(cname)
        tcls = classes[spec[tname].mtype]
        ci = [x.name for x in spec[tname].controllers].index(cname)
        for v in sorted({tc.min, tc.max, (tc.min + tc.max) // 2, tc.min + 1, tc.default}):
            for path in ("synth", "project", "clone"):
                ctx.case()
                mm = m.MetaModule()
                mm.project.new_module(tcls)
                mm.mappings.values[0] = mm.Mapping((1, ci))
                mm.user_defined_controllers = 1
                mm.update_user_defined_controllers()
                want = expected_raw(tc.kind, tc.min, v)
                mm.set_raw("user_defined_1", want)  # the value arrives as a stored value, the embedded controller keeps its own
                rec = {"entity": "MetaModule.user_defined_1->%s.%s" % (tname, cname), "value": v, "path": path}
                held = mm.user_defined_1
                ctx.check(held == v and mm.get_raw("user_defined_1") == want, "C10.mapped.set_raw", "%s: set_raw(%d) reads %r / get_raw %r, expected %d / %d" % (rec["entity"], want, held, mm.get_raw("user_defined_1"), v, want), key="C10.mapped.set_raw:" + rec["entity"], recipe=rec)
                if path == "synth":
                    data = Synth(mm).read()
                    got = cvals_in(data, False)
                    back = read_sunvox_file(BytesIO(data)).module
                elif path == "project":
                    p = Project()
                    p.attach_module(mm)
                    data = p.read()
                    got = cvals_in(data, True)
                    back = read_sunvox_file(BytesIO(data)).modules[1]
                else:
                    got = None
                    back = mm.clone()
                if got is not None:
                    ctx.check(len(got) > 5 and got[5] == want, "C10.mapped.file", "%s=%d (%s): file holds %r, expected %d" % (rec["entity"], v, path, got[5:6], want), key="C10.mapped.file:" + rec["entity"], recipe=rec)
                # the pattern (XXYY) value of the user-defined controller is that of the controller it stands for -
                # on the MetaModule that has just adopted the mapping and on the one that came back
                tmod = mm.project.modules[1]
                want_pat = tcls.controllers[cname].pattern_value(tmod, v)
                for who, obj in (("adopted", mm), ("back", back)):
                    got_pat = type(obj).controllers["user_defined_1"].pattern_value(obj, v) if "user_defined_1" in type(obj).controllers else obj.controllers["user_defined_1"].pattern_value(obj, v)
                    ctx.check(got_pat == want_pat, "C10.mapped.pattern_value", "%s=%d (%s, %s): pattern value %r, the mapped controller's own is %r" % (rec["entity"], v, path, who, got_pat, want_pat), key="C10.mapped.pattern_value:" + rec["entity"], recipe=rec)
                ctx.check(back.user_defined_1 == v, "C10.mapped.back", "%s=%d (%s): comes back as %r" % (rec["entity"], v, path, back.user_defined_1), key="C10.mapped.back:" + rec["entity"], recipe=rec)
                ctx.mark_nontrivial(["mapped", rec["entity"], v, path])
    ctx.label("mapped_user_defined_stored_value")


def run_shard(ctx, desc):
    import rv.modules as m

    if desc.get("kind") == "file_cvals":
        run_file_cvals(ctx, desc)
        return
    if desc.get("kind") == "after_user_subclasses":
        from rv.controller import Controller

        classes = dict(m.MODULE_CLASSES)
        for cls in list(classes.values()):
            type("Plain" + cls.__name__, (cls,), {})
            type("My" + cls.__name__, (cls,), {"extra_knob": Controller((0, 10), 5)})
        for ax in axes():
            name, cname, kind, uctl, unit, lo, hi = ax
            if kind in ("range", "compact", "no_offset", "dependent"):
                span = hi - lo
                for seg in ((lo, lo + 1, 1), (hi, hi + 1, 1), (lo + span // 2, lo + span // 2 + 1, 1)):
                    run_axis(ctx, classes, ax, seg)
        ctx.label("after_user_subclasses")
        return
    classes = dict(m.MODULE_CLASSES)
    for ax, seg in desc["items"]:
        run_axis(ctx, classes, tuple(ax), seg)


def replay(ctx, doc):
    import rv.modules as m
    from vlib.harness import Ctx, PropertyViolation

    r = doc["recipe"]
    ent = r["entity"]
    if r.get("file") or "->" in ent:
        c2 = Ctx(ctx.prop, ctx.tier, ctx.seed, 0, 1, [])
        run_file_cvals(c2, {"types": [ent.split(".")[0]] if "->" not in ent else [], "mapped": "->" in ent})
        for f in c2.failures:
            if f["recipe"].get("entity") == ent:
                raise PropertyViolation(f["sub_oracle"], f["detail"], f["key"])
        return
    base = ent.split("[")[0]
    name, cname = base.split(".", 1)
    for ax in list(axes()) + [("MetaModule", "user_defined_%d" % k, "userdef", None, None, 0, 44100) for k in (1, 48, 96)]:
        if ax[0] == name and ax[1] == cname and (ax[4] == r.get("unit") or r.get("unit") is None):
            c2 = Ctx(ctx.prop, ctx.tier, ctx.seed, 0, 1, [])
            if ax[2] in ("enum", "bool"):
                run_axis(c2, dict(m.MODULE_CLASSES), ax, None)
            else:
                v = int(r["value"])
                lo = max(ax[5], v - 1)
                run_axis(c2, dict(m.MODULE_CLASSES), ax, (lo, min(ax[6], v) + 1, 1))
            if c2.failures:
                f = c2.failures[0]
                raise PropertyViolation(f["sub_oracle"], f["detail"], f["key"])
