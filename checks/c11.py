"""C11 - module options pack into disjoint bits and read back exactly."""

from __future__ import annotations

import os
import struct

from hypothesis import strategies as st

from vlib import chunktools, specmodel
from vlib.harness import REPO, PropertyViolation, run_property

PROPERTY_ID = "C11"
LEVEL = "exploration"
RULE = (
    "complete: bit-disjointness of the 49 options from class metadata; every representable value (2^size) of every option "
    "alone, and all ordered pairs of options over {0,1,mid,max} (+ out-of-bounds values for bounded options), each saved and "
    "reloaded in both contexts (stand-alone synth / module in a project) with the options CHDT compared against an independent "
    "packing computed from the YAML layout; every option set to v1, saved, then set to v2 on the loaded object and on a clone and saved again (second generation); Hypothesis: random full assignments in random order, cut into up to three generations applied to loaded / cloned objects. distinct = assignment "
    "sequence; non-trivial = >= 2 options non-default or a multi-bit option at its top value or a clamped value"
    ' Also (added while the seeded-change rounds of DESIGN section 9 ran): Every third assignment is made with the strictness flag off; later generations continue on the loaded object, a clone, or the saved object itself; exclusive pairs are split across a save; project contexts are written as older versions in turn.'
)
RULE += " Rounds 12-14 of DESIGN section 9 added: boundary assignments right after each fixture has been read; options given as constructor keywords (alone and in pairs, both orders, also through new_module); MetaModules whose user-defined controllers are named after its options."
ASSUMPTIONS = [
    "YAML byte/bit/size/inverted/exclusive_of/min/max are the declared layout",
    "stored value of an inverted option = not logical value; exclusive partner is cleared on assignment (any assignment, as the library's descriptor documents)",
]
# classes of cases that are produced deterministically: their absence is a harness error (see vlib.harness)
HARD_LABELS = ['single', 'pair', 'second_generation_same_option']
REQUIRED_LABELS = {t: ["single", "pair", "random", "clamped", "inverted_set", "exclusive_set", "second_generation_same_option", "multibit_lowered_on_loaded_object", "random_with_later_generations"] for t in ("quick", "thorough")}

OPTION_TYPES = ["AnalogGenerator", "MetaModule", "MultiSynth", "Sampler", "Sound2Ctl"]


def exhaustive(tier):
    return False


def plan(tier):
    descs = [{"kind": "layout"}]
    for t in OPTION_TYPES:
        descs.append({"kind": "singles", "type": t})
        descs.append({"kind": "regen", "type": t})
        descs.append({"kind": "pairs", "type": t, "part": 0, "parts": 2})
        descs.append({"kind": "pairs", "type": t, "part": 1, "parts": 2})
        descs.append({"kind": "ctor_kw", "type": t})
    per = 200 if tier == "quick" else 3000
    for i in range(5):
        descs.append({"kind": "random", "examples": per})
    from checks import c05

    fs = [os.path.relpath(f, os.path.join(REPO, "tests", "files")) for f in c05.fixture_files()]
    for i in range(4):
        # option assignments in a process that has just read a file written by SunVox itself (older layouts)
        descs.append({"kind": "after_fixture", "files": fs[i::4]})
    return descs


def load_fixture(rel):
    from rv.api import read_sunvox_file

    return read_sunvox_file(os.path.join(REPO, "tests", "files", rel))


def option_types_in(obj, out=None):
    out = set() if out is None else out
    mods = [obj.module] if type(obj).__name__ == "Synth" else [m_ for m_ in obj.modules if m_ is not None]
    for m_ in mods:
        out.add(type(m_).__name__)
        if type(m_).__name__ == "MetaModule" and getattr(m_, "project", None) is not None:
            option_types_in(m_.project, out)
    return out


def run_after_fixture(ctx, files):
    spec = specmodel.load()
    for rel in files:
        present = option_types_in(load_fixture(rel))
        for tname in OPTION_TYPES:
            if tname not in present:
                continue
            mt = spec[tname]
            for o in mt.options:
                vals = [False, True] if o.size == 1 else sorted({0, 1, (1 << o.size) - 1} | ({o.min, o.max // 2 + 1, o.max - 1, o.max, o.max + 1} if o.min is not None else {(1 << o.size) // 2}))
                for v in vals:
                    ctx.label("assignment_after_reading_a_fixture")
                    guarded(ctx, tname, [[o.name, v]], after_fixture=rel)
        ctx.sample({"after_fixture": rel, "types_with_options": sorted(t for t in OPTION_TYPES if t in present)})


def cls_of(tname):
    import rv.modules as m

    return m.MODULE_CLASSES[specmodel.load()[tname].mtype]


# --- model ---------------------------------------------------------------------------


def model_defaults(mt):
    d = {}
    for o in mt.options:
        if o.enum:
            d[o.name] = mt.enums[o.enum][specmodel.mangle(o.default)]
        else:
            d[o.name] = o.default
    return d


def norm_assign(o, v):
    """logical value the option must read back after assigning v"""
    if o.min is not None and o.max is not None:
        return max(o.min, min(o.max, v))
    if o.size == 1:
        return bool(v)
    return v


def model_apply(mt, state, name, v):
    o = next(x for x in mt.options if x.name == name)
    state[name] = norm_assign(o, v)
    for other in o.exclusive_of:
        state[other] = False


def model_pack(mt, state):
    size = max(o.byte for o in mt.options) + 1
    bm = [0] * 64
    for o in mt.options:
        logical = state[o.name]
        stored = (not logical) if o.inverted else logical
        stored = int(stored) & ((1 << o.size) - 1)
        bm[o.byte] |= stored << o.bit
    return bm, size


def values_of(o):
    if o.size == 1:
        return [False, True]
    return list(range(1 << o.size))


# --- execution -----------------------------------------------------------------------


def options_chdt(data, chnm):
    chunks = chunktools.parse(data)
    head, pats, mods, tail = chunktools.module_sections(chunks)
    sec = mods[-1]
    by = chunktools.module_chunks_by_chnm(sec)
    ent = by.get(chnm)
    return None if ent is None else ent["CHDT"]


def run_assignment(ctx, tname, seq, both_contexts=True, then=()):
    """seq: list of [option name, value]; then: further generations [[carrier, seq], ...] applied to
    the object obtained by loading the previous generation's file ("loaded") or cloning ("clone").
    Raises PropertyViolation."""
    spec = specmodel.load()
    mt = spec[tname]
    state = model_defaults(mt)
    mod = cls_of(tname)()
    if tname == "MetaModule" and len(repr(seq)) % 2:
        # its user-defined controllers carry names that are also the names of its options
        from checks import c09

        labels_ = [o.name.replace("_", " ").capitalize() for o in mt.options][:12]
        c09.label_user_controllers(mod, labels_)
        state["user_defined_controllers"] = len(labels_)  # the count is itself one of the options
    back = run_generation(ctx, tname, mt, mod, state, seq, both_contexts, "")
    for gi, (carrier, seq2) in enumerate(then, 2):
        # "same": the very object that has just been saved (stand-alone and inside a project) goes on being edited
        mod = back if carrier == "loaded" else back.clone() if carrier == "clone" else mod
        back = run_generation(ctx, tname, mt, mod, state, seq2, both_contexts, ".gen%d_%s" % (min(gi, 3), carrier))
    return state


def run_generation(ctx, tname, mt, mod, state, seq, both_contexts, gen):
    from rv.api import Project, Synth, read_sunvox_file
    from io import BytesIO

    import rv.errors

    synth_back = None
    for k_, (name, v) in enumerate(seq):
        # what an option holds does not depend on whether out-of-range controller values currently raise or
        # only warn: every third assignment is made with that process-wide switch off
        lenient = (k_ + len(seq)) % 3 == 2
        prev_flag = rv.errors.RAISE_CONTROLLER_VALUE_ERRORS
        if lenient:
            rv.errors.RAISE_CONTROLLER_VALUE_ERRORS = False
        try:
            setattr(mod, name, v)
        finally:
            rv.errors.RAISE_CONTROLLER_VALUE_ERRORS = prev_flag
        model_apply(mt, state, name, v)
        for o in mt.options:
            got = getattr(mod, o.name)
            if int(got) != int(state[o.name]) or (o.size == 1 and not isinstance(got, bool)):
                raise PropertyViolation(
                    "C11.assign.readback" + gen,
                    "%s after %s=%r: %s reads %r, expected %r" % (tname, name, v, o.name, got, state[o.name]),
                    key="C11.assign.readback%s:%s.%s" % (gen, tname, o.name),
                )
    for o in mt.options:
        for other in o.exclusive_of:
            if getattr(mod, o.name) and getattr(mod, other):
                raise PropertyViolation("C11.exclusive", "%s: %s and %s both on" % (tname, o.name, other), key="C11.exclusive:%s.%s" % (tname, o.name))
    contexts = ["synth", "project"] if both_contexts else ["synth"]
    for cx in contexts:
        if cx == "synth":
            data = Synth(mod).read()
            back = synth_back = read_sunvox_file(BytesIO(data)).module
        else:
            p = Project()
            ver = [None, (1, 9, 4, 2), None, (1, 7, 0, 0), None, (2, 0, 0, 0)][len(repr(seq)) % 6]
            if ver:
                p.sunvox_version = ver  # the project is written as a file of an older SunVox version
            p.attach_module(mod.clone() if gen else mod)
            mod = p.modules[-1]
            data = p.read()
            back = read_sunvox_file(BytesIO(data)).modules[mod.index]
        chdt = options_chdt(data, mt.options_chnm)
        bm, size = model_pack(mt, state)
        if chdt is None:
            raise PropertyViolation("C11.chunk.missing", "%s (%s): no options chunk CHNM %r" % (tname, cx, mt.options_chnm), key="C11.chunk.missing:" + tname)
        if not (size <= len(chdt) <= 64):
            raise PropertyViolation("C11.chunk.length", "%s (%s): options CHDT is %d bytes, highest option byte needs %d (max 64)" % (tname, cx, len(chdt), size), key="C11.chunk.length:" + tname)
        want = bytes(bm[: len(chdt)])
        if chdt != want:
            raise PropertyViolation("C11.chunk.bytes" + gen, "%s (%s): options CHDT %s, independent packing %s (state %r)" % (tname, cx, chdt.hex(), want.hex(), state), key="C11.chunk.bytes%s:%s" % (gen, tname))
        for o in mt.options:
            got = getattr(back, o.name)
            if int(got) != int(state[o.name]):
                raise PropertyViolation(
                    "C11.roundtrip." + cx + gen,
                    "%s: after %r and save/load (%s), %s reads %r, expected %r" % (tname, seq, cx, o.name, got, state[o.name]),
                    key="C11.roundtrip.%s%s:%s.%s" % (cx, gen, tname, o.name),
                )
    return synth_back


def labels_for(ctx, mt, seq, state):
    d = model_defaults(mt)
    nondef = sum(1 for k in state if int(state[k]) != int(d[k]))
    nt = nondef >= 2
    for name, v in seq:
        o = next(x for x in mt.options if x.name == name)
        if o.size > 1 and v == (1 << o.size) - 1:
            nt = True
        if o.min is not None and (v < o.min or v > o.max):
            ctx.label("clamped")
            nt = True
        if o.inverted:
            ctx.label("inverted_set")
        if o.exclusive_of and v:
            ctx.label("exclusive_set")
    return nt


def run_layout(ctx):
    spec = specmodel.load()
    for tname in OPTION_TYPES:
        mt = spec[tname]
        cls = cls_of(tname)
        used = {}
        for name, o in sorted(cls.options.items()):
            ctx.case()
            ctx.check(0 <= o.bit and o.bit + o.size <= 8 and 0 <= o.byte < 64, "C11.layout.within_byte", "%s.%s byte=%d bit=%d size=%d" % (tname, name, o.byte, o.bit, o.size), key="C11.layout.within_byte:%s.%s" % (tname, name), recipe={"type": tname, "option": name})
            for b in range(o.bit, o.bit + o.size):
                prev = used.get((o.byte, b))
                ctx.check(prev is None, "C11.layout.disjoint", "%s: options %s and %s share byte %d bit %d" % (tname, prev, name, o.byte, b), key="C11.layout.disjoint:%s.%s" % (tname, name), recipe={"type": tname, "option": name, "other": prev})
                used[(o.byte, b)] = name
            ctx.mark_nontrivial(["layout", tname, name])
        # the same from the YAML side (spec must itself be disjoint for the model to be meaningful)
        used = {}
        for o in mt.options:
            for b in range(o.bit, o.bit + o.size):
                ctx.check((o.byte, b) not in used, "C11.layout.spec_disjoint", "%s: spec options %s and %s overlap" % (tname, used.get((o.byte, b)), o.name), recipe={"type": tname, "option": o.name})
                used[(o.byte, b)] = o.name
        ctx.sample({"type": tname, "options": len(mt.options), "bits": len(used)})


def guarded(ctx, tname, seq, then=(), after_fixture=None):
    ctx.case()
    try:
        if after_fixture:
            load_fixture(after_fixture)
        state = run_assignment(ctx, tname, seq, then=then)
    except PropertyViolation as v:
        ctx.check(False, v.sub_oracle, v.detail, key=v.key, recipe={"type": tname, "seq": seq, "then": [list(t) for t in then], "after_fixture": after_fixture})
        return
    except Exception as e:  # noqa: BLE001
        from vlib.harness import as_violation

        v = as_violation(e, "C11", "assign")
        if v is None:
            raise
        ctx.check(False, v.sub_oracle, v.detail, key=v.key + ":" + tname, recipe={"type": tname, "seq": seq, "then": [list(t) for t in then], "after_fixture": after_fixture})
        return
    mt = specmodel.load()[tname]
    if labels_for(ctx, mt, seq + [x for _, s2 in then for x in s2], state) or then:
        ctx.mark_nontrivial([tname, seq, [list(t) for t in then]])


def run_singles(ctx, tname):
    mt = specmodel.load()[tname]
    for o in mt.options:
        vals = values_of(o)
        if o.min is not None:
            vals = sorted(set(vals) | {o.min - 3, o.min - 1, o.max + 1, o.max + 100, 300})
        for v in vals:
            ctx.label("single")
            guarded(ctx, tname, [[o.name, v]])
        ctx.sample({"type": tname, "option": o.name, "values": len(vals)})


def run_regen(ctx, tname):
    """Every option set to v1, saved and loaded (or cloned), then set to v2 on that object, saved and loaded again."""
    mt = specmodel.load()[tname]
    for o in mt.options:
        for v1 in pair_values(o):
            for v2 in pair_values(o):
                for carrier in ("loaded", "clone", "same"):
                    ctx.label("second_generation_same_option")
                    if o.size > 1 and int(v2) < int(v1):
                        ctx.label("multibit_lowered_on_loaded_object")
                    guarded(ctx, tname, [[o.name, v1]], then=[[carrier, [[o.name, v2]]]])
    ctx.sample({"type": tname, "regen": len(mt.options)})


def run_exclusive_split(ctx, tname):
    """One member of a mutually exclusive pair is switched on, the object is saved (and loaded / cloned / kept),
    then the other member is switched on."""
    mt = specmodel.load()[tname]
    for o in mt.options:
        for other in o.exclusive_of:
            for carrier in ("same", "loaded", "clone"):
                for first in ([[o.name, True]], [[o.name, True], [other, False]], [[other, True], [o.name, True]]):
                    ctx.label("exclusive_pair_across_a_save")
                    guarded(ctx, tname, first, then=[[carrier, [[other, True]]]])
                    guarded(ctx, tname, first, then=[[carrier, [[other, True]]], [carrier, [[o.name, True]]]])


def run_ctor(ctx, tname, kw, via):
    """Options given as constructor keywords (directly, or through Project.new_module): which of two conflicting
    keywords wins is the library's business; what the constructed object reads is what gets packed and read back,
    exclusive options are not both on, bounded options are within their bounds."""
    from rv.api import Project

    mt = specmodel.load()[tname]
    kw = dict(kw)
    mod = Project().new_module(cls_of(tname), **kw) if via == "new_module" else cls_of(tname)(**kw)
    state = {}
    for o in mt.options:
        got = getattr(mod, o.name)
        if o.size == 1 and not isinstance(got, bool):
            raise PropertyViolation("C11.ctor.type", "%s(**%r): %s reads %r" % (tname, kw, o.name, got), key="C11.ctor.type:%s.%s" % (tname, o.name))
        if o.min is not None and not (o.min <= int(got) <= o.max):
            raise PropertyViolation("C11.ctor.bounds", "%s(**%r): %s reads %r outside [%r, %r]" % (tname, kw, o.name, got, o.min, o.max), key="C11.ctor.bounds:%s.%s" % (tname, o.name))
        if o.name in kw and not o.exclusive_of and not any(o.name in x.exclusive_of for x in mt.options) and int(got) != int(norm_assign(o, kw[o.name])):
            raise PropertyViolation("C11.ctor.readback", "%s(**%r): %s reads %r" % (tname, kw, o.name, got), key="C11.ctor.readback:%s.%s" % (tname, o.name))
        state[o.name] = got
    if via == "new_module":
        mod = mod.clone()
    run_generation(ctx, tname, mt, mod, state, [], True, ".ctor")
    return state


def run_ctor_shard(ctx, tname):
    mt = specmodel.load()[tname]
    n = 0
    for i1, o1 in enumerate(mt.options):
        for o2 in mt.options[i1:]:
            for v1 in pair_values(o1):
                for v2 in pair_values(o2) if o2 is not o1 else [None]:
                    for order in (0, 1):
                        items = [(o1.name, v1)] + ([(o2.name, v2)] if o2 is not o1 else [])
                        if order:
                            if len(items) == 1:
                                continue
                            items.reverse()
                        via = "new_module" if (n % 3 == 2) else "ctor"
                        n += 1
                        ctx.case()
                        rec = {"type": tname, "ctor_kw": [list(x) for x in items], "via": via}
                        try:
                            run_ctor(ctx, tname, items, via)
                            ctx.label("constructor_keywords")
                            if len(items) == 2 and (o2.name in o1.exclusive_of or o1.name in o2.exclusive_of) and v1 and v2:
                                ctx.label("constructor_keywords_conflicting_exclusive_pair")
                            ctx.mark_nontrivial(rec)
                        except PropertyViolation as v:
                            ctx.check(False, v.sub_oracle, v.detail, key=v.key, recipe=rec)
                        except Exception as e:  # noqa: BLE001
                            from vlib.harness import as_violation

                            v = as_violation(e, "C11", "ctor")
                            if v is None:
                                raise
                            ctx.check(False, v.sub_oracle, "%r: %s" % (rec, v.detail), key=v.key + ":" + tname, recipe=rec)
    ctx.sample({"type": tname, "ctor_keyword_cases": n})


def pair_values(o):
    if o.size == 1:
        return [False, True]
    top = (1 << o.size) - 1
    vals = {0, 1, top // 2, top}
    if o.max is not None:
        vals |= {o.max, o.max + 1}
    return sorted(vals)


def run_pairs(ctx, tname, part, parts):
    mt = specmodel.load()[tname]
    i = 0
    for o1 in mt.options:
        for o2 in mt.options:
            if o1 is o2:
                continue
            i += 1
            if i % parts != part:
                continue
            for v1 in pair_values(o1):
                for v2 in pair_values(o2):
                    ctx.label("pair")
                    guarded(ctx, tname, [[o1.name, v1], [o2.name, v2]])
    ctx.sample({"type": tname, "pairs_part": part})


@st.composite
def random_assignment(draw):
    spec = specmodel.load()
    tname = draw(st.sampled_from(OPTION_TYPES))
    mt = spec[tname]
    n = draw(st.integers(1, min(24, 2 * len(mt.options))))
    seq = []
    for _ in range(n):
        o = draw(st.sampled_from(mt.options))
        if o.size == 1:
            v = draw(st.booleans())
        elif o.min is not None:
            v = draw(st.one_of(st.integers(o.min, o.max), st.integers(o.min - 50, o.max + 400)))
        else:
            v = draw(st.integers(0, (1 << o.size) - 1))
        seq.append([o.name, v])
    # cut the sequence into generations: the later parts are applied to loaded / cloned objects
    cuts = sorted(draw(st.lists(st.integers(1, max(1, n - 1)), max_size=2, unique=True))) if n > 1 else []
    parts, lo = [], 0
    for c in cuts + [n]:
        parts.append(seq[lo:c])
        lo = c
    then = [[draw(st.sampled_from(["loaded", "clone", "same"])), part] for part in parts[1:] if part]
    return {"type": tname, "seq": parts[0], "then": then}


def run_shard(ctx, desc):
    k = desc["kind"]
    if k == "layout":
        run_layout(ctx)
    elif k == "singles":
        run_singles(ctx, desc["type"])
    elif k == "regen":
        run_regen(ctx, desc["type"])
        run_exclusive_split(ctx, desc["type"])
    elif k == "pairs":
        run_pairs(ctx, desc["type"], desc["part"], desc["parts"])
    elif k == "ctor_kw":
        run_ctor_shard(ctx, desc["type"])
    elif k == "after_fixture":
        run_after_fixture(ctx, desc["files"])
    else:

        def body(case):
            ctx.case()
            ctx.label("random")
            state = run_assignment(ctx, case["type"], case["seq"], then=case.get("then", ()))
            if case.get("then"):
                ctx.label("random_with_later_generations")
            if labels_for(ctx, specmodel.load()[case["type"]], case["seq"] + [x for _, s2 in case.get("then", ()) for x in s2], state):
                ctx.mark_nontrivial(case)
            ctx.sample(case)

        run_property(ctx, random_assignment(), body, desc["examples"], tag="random")


def replay(ctx, doc):
    r = doc["recipe"]
    if "case" in r:
        r = r["case"]
    if "ctor_kw" in r:
        run_ctor(ctx, r["type"], [tuple(x) for x in r["ctor_kw"]], r["via"])
        return
    if "seq" in r:
        if r.get("after_fixture"):
            load_fixture(r["after_fixture"])
        run_assignment(ctx, r["type"], r["seq"], then=r.get("then", ()))
    else:
        from vlib.harness import Ctx

        c2 = Ctx(ctx.prop, ctx.tier, ctx.seed, 0, 1, [])
        run_layout(c2)
        for f in c2.failures:
            if f["recipe"].get("option") == r.get("option") and f["recipe"].get("type") == r.get("type"):
                raise PropertyViolation(f["sub_oracle"], f["detail"], f["key"])
