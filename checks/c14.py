"""C14 - ownership and indexing of modules and patterns stay coherent."""

from __future__ import annotations

from io import BytesIO

from hypothesis import strategies as st

from vlib import build
from vlib.harness import PropertyViolation, run_property

PROPERTY_ID = "C14"
LEVEL = "exploration"
RULE = (
    "model-based: Hypothesis generates operation histories over 2-3 projects: new_module, attach_module (unattached - constructed, loaded from a .sunsynth file, a clone, a clone of a module sitting in a project - / already in this project / owned by "
    "another project / None), += with module / pattern / clone / list, attach_pattern (fresh / already owned / None), note.module and note.mod "
    "get/set (own module, unattached module), save_load (project replaced by its reloaded copy), blank_reload (generated module positions are "
    "emptied in the saved bytes and the file is reloaded: interior empty positions). Reference model = list of slots per project + owner map. "
    "After every step: index/parent/output invariants, the slot list equals the model's (a new module takes the lowest empty position, nothing "
    "else moves), refused operations leave every project unchanged, every note's mod resolves to the module at that position or None. "
    "non-trivial = history fills a gap, or has a refused attach, or attaches after a save_load"
    ' Also (added while the seeded-change rounds of DESIGN section 9 ran): Also: nested += lists, module origins (synth file, clone, clone of attached, parent= keyword), flags assigned on attached modules, one project written as an old version, histories on a project that already holds 253-300 modules.'
)
RULE += " Rounds 12-14 of DESIGN section 9 added: modules constructed with parent= and index=; MultiCtl.macro with accepted and refused initial values."
ASSUMPTIONS = [
    "attach_module(None) appends an empty position (as the reader does); empty positions at the end disappear on save/load",
    "after save_load the old module objects are stale handles that still belong to the discarded project object",
]
REQUIRED_LABELS = {
    "quick": ["gap_filled", "refused_module", "refused_pattern", "reattach_own", "attach_after_save_load", "note_mod_set", "note_mod_none", "interior_gap", "iadd_list", "attach_origin_synth_file", "attach_origin_clone", "attach_origin_clone_of_attached", "iadd_nested", "iadd_nested_into_gaps", "project_with_more_than_255_modules", "attach_origin_ctor_parent_kw", "attach_origin_ctor_parent_index_kw", "module_flags_assigned"],
    "thorough": ["gap_filled", "refused_module", "refused_pattern", "reattach_own", "attach_after_save_load", "note_mod_set", "note_mod_none", "interior_gap", "iadd_list", "note_mod_unattached_refused", "attach_origin_synth_file", "attach_origin_clone", "attach_origin_clone_of_attached"],
}
TYPES = ["Amplifier", "Generator", "Filter", "MultiSynth", "Echo"]
# where an unattached module comes from: constructed, loaded from a .sunsynth file, a clone of an
# unattached module, a clone of a module that sits in some project at a position > 0
ORIGINS = ["new", "new", "synth_file", "clone", "clone_of_attached", "ctor_parent_kw", "ctor_parent_index_kw"]


def exhaustive(tier):
    return False


def plan(tier):
    n, per, steps = (16, 80, 30) if tier == "quick" else (16, 800, 60)
    return [{"kind": "random", "examples": per, "steps": steps} for _ in range(n)] + [{"kind": "random", "big": True, "examples": max(6, per // 10), "steps": 12} for _ in range(2 if tier == "quick" else 6)]


@st.composite
def history(draw, max_steps, big=False):
    nproj = draw(st.integers(2, 3))
    ops = []
    k = draw(st.integers(1, max_steps))
    P = st.integers(0, nproj - 1)
    sel = st.integers(0, 40)  # resolved modulo what exists at run time
    kinds = ["new", "new", "attach_fresh", "attach_own", "attach_foreign", "attach_none", "iadd_module", "iadd_list", "iadd_nested", "iadd_pattern", "iadd_clone", "attach_pattern", "attach_pattern_owned", "attach_pattern_none", "note_set_module", "note_set_mod", "note_set_mod_unattached", "save_load", "blank_reload", "set_flags", "macro", "macro"]
    for _ in range(k):
        kind = draw(st.sampled_from(kinds))
        op = [kind, draw(P)]
        if kind in ("new", "attach_fresh", "iadd_module"):
            op.append(draw(st.sampled_from(TYPES)))
            if kind != "new":
                op.append(draw(st.sampled_from(ORIGINS)))
        elif kind in ("attach_own", "attach_foreign", "attach_pattern_owned"):
            op += [draw(P), draw(sel)]
        elif kind == "macro":
            # MultiCtl.macro builds a controller bundle in the project; with an initial value that is refused the call fails
            op += [draw(sel), draw(st.sampled_from([None, 100, 32768, 99999, -1]))]
        elif kind == "iadd_list":
            op.append([draw(st.sampled_from(TYPES)) for _ in range(draw(st.integers(1, 3)))])
            op.append(draw(st.sampled_from(ORIGINS)))
        elif kind == "iadd_nested":
            # += takes lists of lists too: a tree of module types (leaves) and patterns ("P")
            leaf = st.sampled_from(TYPES + ["P"])
            op.append(draw(st.lists(st.one_of(leaf, st.lists(st.one_of(leaf, st.lists(leaf, max_size=2)), max_size=3)), min_size=1, max_size=3)))
        elif kind in ("note_set_module", "note_set_mod"):
            op += [draw(sel), draw(sel), draw(sel)]
        elif kind == "note_set_mod_unattached":
            op += [draw(sel), draw(sel)]
        elif kind == "blank_reload":
            op.append(draw(st.lists(sel, min_size=1, max_size=3)))
        elif kind == "set_flags":
            # the flags word of an attached module is a plain public field (mute / solo / bypass bits ...)
            op += [draw(sel), draw(st.sampled_from([0, 0x80, 0x100, 0x4000, 0x49, 0x48, 0xFFFFFFFE, 2, 0x51 & ~1]))]
        ops.append(op)
    h = {"projects": nproj, "ops": ops}
    if big:
        # project 0 already holds this many modules (positions around and above 256, 16-bit note columns)
        h["prefill"] = draw(st.sampled_from([253, 254, 255, 256, 300]))
    return h


class World:
    def __init__(self, n, prefill=0):
        from rv.api import Project

        self.projects = [Project() for _ in range(n)]
        self.projects[-1].sunvox_version = (1, 9, 4, 2)  # one of the projects is written as an old-version file
        self._prefill = prefill
        # model: per project list of uids (None = empty); uid -> module object
        self.slots = [["out%d" % i] for i in range(n)]
        self.objs = {}
        for i, p in enumerate(self.projects):
            self.objs["out%d" % i] = p.output
        self.pat_model = [[] for _ in range(n)]  # list of pattern uids or None
        self.pats = {}
        self.uid = 0
        self.stale = []  # module objects owned by discarded project objects
        for _ in range(prefill):
            uid = self.new_uid()
            self.objs[uid] = self.projects[0].new_module(build.cls_of("Amplifier"))
            self.slots[0].append(uid)

    def fresh(self, tname, origin="new", for_project=None):
        from rv.api import Synth, read_sunvox_file

        if origin == "ctor_parent_index_kw" and for_project is None:
            origin = "new"
        if origin == "ctor_parent_index_kw":
            # both keywords of the constructor: the future owner and a position the caller has in mind (taken or not,
            # inside the list or beyond it); where the module really lands is decided when it is attached
            n_ = len(for_project.modules)
            mod = build.cls_of(tname)(parent=for_project, index=(n_ * 7 + 1) % (n_ + 3))
            if any(x is mod for x in for_project.modules):
                raise PropertyViolation("C14.ctor_parent_kw", "constructing a module with parent= and index= already put it into the project")
            return mod
        if origin == "ctor_parent_kw" and for_project is not None:
            # the constructor takes the future owner as a keyword; the module is not in the list until attached
            mod = build.cls_of(tname)(parent=for_project)
            if any(x is mod for x in for_project.modules):
                raise PropertyViolation("C14.ctor_parent_kw", "constructing a module with parent= already put it into the project")
            return mod
        mod = build.cls_of(tname)()
        if origin == "synth_file":
            mod = read_sunvox_file(BytesIO(Synth(mod).read())).module
        elif origin == "clone":
            mod = mod.clone()
        elif origin == "clone_of_attached":
            cands = [x for p in self.projects for x in p.modules[1:] if x is not None]
            mod = (cands[-1] if cands else mod).clone()
        if mod.parent is not None:
            raise PropertyViolation("C14.unattached_origin", "a module obtained by %s already has a parent" % origin)
        return mod

    def new_uid(self):
        self.uid += 1
        return "m%d" % self.uid

    def model_attach(self, pi, uid):
        s = self.slots[pi]
        if None in s:
            pos = s.index(None)
            s[pos] = uid
            return pos, True
        s.append(uid)
        return len(s) - 1, False


def struct_snapshot(world):
    out = []
    for p in world.projects:
        out.append(([id(m) if m is not None else None for m in p.modules], [id(x) if x is not None else None for x in p.patterns], [(m.index, id(m.parent)) for m in p.modules if m is not None]))
    return out


def check_invariants(world, step, op):
    from rv.modules.output import Output

    for pi, p in enumerate(world.projects):
        model = world.slots[pi]
        got = [None if m is None else next((u for u, o in world.objs.items() if o is m), "?") for m in p.modules]
        if got != model:
            raise PropertyViolation("C14.slots", "step %d %r: project %d slots are %r, model says %r" % (step, op[:2], pi, got, model))
        for i, m in enumerate(p.modules):
            if m is None:
                continue
            if m.index != i:
                raise PropertyViolation("C14.index", "step %d %r: project %d modules[%d].index == %r" % (step, op[:2], pi, i, m.index))
            if m.parent is not p:
                raise PropertyViolation("C14.parent", "step %d %r: project %d modules[%d].parent is not that project" % (step, op[:2], pi, i))
        if not p.modules or p.modules[0] is not p.output or not isinstance(p.output, Output):
            raise PropertyViolation("C14.output", "step %d %r: project %d position 0 is not its output module" % (step, op[:2], pi))
        pm = world.pat_model[pi]
        gotp = [None if x is None else next((u for u, o in world.pats.items() if o is x), "?") for x in p.patterns]
        if gotp != pm:
            raise PropertyViolation("C14.patterns", "step %d %r: project %d patterns are %r, model says %r" % (step, op[:2], pi, gotp, pm))
        for x in p.patterns:
            if x is None:
                continue
            if x.project is not p:
                raise PropertyViolation("C14.pattern_owner", "step %d: pattern owner is not project %d" % (step, pi))
            if type(x).__name__ != "Pattern":
                continue
            for line in x.data:
                for n in line:
                    mi = n.module - 1
                    want = p.modules[mi] if (n.module != 0 and 0 <= mi < len(p.modules)) else None
                    try:
                        got_mod = n.mod
                    except Exception as e:  # noqa: BLE001
                        raise PropertyViolation("C14.note_mod.resolves", "step %d: note.module=%d, note.mod raised %r" % (step, n.module, e))
                    if got_mod is not want:
                        raise PropertyViolation("C14.note_mod.value", "step %d: note.module=%d resolves to %r, expected %r" % (step, n.module, got_mod, want))


def run_history(ctx, h):
    from rv.api import Pattern, PatternClone, read_sunvox_file
    from rv.errors import ModuleOwnershipError, PatternOwnershipError

    w = World(h["projects"], h.get("prefill", 0))
    labels = set()
    if h.get("prefill"):
        labels.add("project_with_more_than_255_modules")
    after_reload = [False] * h["projects"]
    check_invariants(w, -1, ["init"])
    for step, op in enumerate(h["ops"]):
        kind, pi = op[0], op[1]
        p = w.projects[pi]
        before = struct_snapshot(w)
        before_slots = list(w.slots[pi])

        def attach_new(mod, how):
            uid = w.new_uid()
            w.objs[uid] = mod
            had_gap = None in w.slots[pi]
            interior = had_gap and w.slots[pi].index(None) < len(w.slots[pi]) - 1
            pos, filled = w.model_attach(pi, uid)
            if how == "attach":
                r = p.attach_module(mod)
                if r is not mod:
                    raise PropertyViolation("C14.attach.returns", "attach_module did not return the module")
            elif how == "new":
                pass
            if filled:
                labels.add("gap_filled")
            if interior:
                labels.add("interior_gap")
            if after_reload[pi]:
                labels.add("attach_after_save_load")

        if kind == "new":
            cls = build.cls_of(op[2])
            uid = w.new_uid()
            had_gap = None in w.slots[pi]
            interior = had_gap and w.slots[pi].index(None) < len(w.slots[pi]) - 1
            pos, filled = w.model_attach(pi, uid)
            mod = p.new_module(cls)
            w.objs[uid] = mod
            if filled:
                labels.add("gap_filled")
            if interior:
                labels.add("interior_gap")
            if after_reload[pi]:
                labels.add("attach_after_save_load")
        elif kind == "attach_fresh":
            attach_new(w.fresh(op[2], op[3] if len(op) > 3 else "new", p), "attach")
            labels.add("attach_origin_" + (op[3] if len(op) > 3 else "new"))
        elif kind == "iadd_module":
            mod = w.fresh(op[2], op[3] if len(op) > 3 else "new", p)
            labels.add("attach_origin_" + (op[3] if len(op) > 3 else "new"))
            attach_new(mod, "iadd")
            p += mod
            if w.projects[pi] is not p:
                raise PropertyViolation("C14.iadd.identity", "+= rebinds the project")
        elif kind == "iadd_list":
            mods = [w.fresh(t, op[3] if len(op) > 3 else "new", p) for t in op[2]]
            labels.add("attach_origin_" + (op[3] if len(op) > 3 else "new"))
            for mod in mods:
                attach_new(mod, "iadd")
            p += mods
            labels.add("iadd_list")
        elif kind == "iadd_nested":
            def realise(tree):
                out = []
                for x in tree:
                    if isinstance(x, list):
                        out.append(realise(x))
                    elif x == "P":
                        pat = Pattern(tracks=1, lines=1)
                        uid = "p%d" % (len(w.pats) + 1)
                        w.pats[uid] = pat
                        w.pat_model[pi].append(uid)
                        out.append(pat)
                    else:
                        mod = w.fresh(x)
                        attach_new(mod, "iadd")
                        out.append(mod)
                return out

            tree = realise(op[2])
            p += tree
            labels.add("iadd_nested")
            if any(isinstance(x, list) and x for x in op[2]) and None in before_slots:
                labels.add("iadd_nested_into_gaps")
        elif kind == "macro":
            from rv.api import m as _m

            own = [u for u in w.slots[pi] if u is not None and getattr(w.objs[u], "controllers", None) and type(w.objs[u]).__name__ != "MultiCtl"]
            if not own:
                continue
            target = w.objs[own[op[2] % len(own)]]
            n_before = len(p.modules)
            uid = w.new_uid()
            pos, filled = w.model_attach(pi, uid)
            err = None
            try:
                _m.MultiCtl.macro(p, (target, list(type(target).controllers)[0]), initial=op[3])
            except Exception as e:  # noqa: BLE001
                err = e
            refused = op[3] is not None and not (0 <= op[3] <= 32768)
            if refused != (err is not None):
                raise PropertyViolation("C14.macro.outcome", "step %d: MultiCtl.macro(initial=%r) %s" % (step, op[3], "raised %r" % err if err else "did not raise"))
            labels.add("macro_refused" if refused else "macro")
            if filled:
                labels.add("gap_filled")
            # a call that failed half-way may leave its bundle behind or take it out again (leaving its place empty):
            # either way no other module moves and every module still sits where its index says
            got = p.modules[pos] if pos < len(p.modules) else None
            if got is not None and type(got).__name__ == "MultiCtl" and not any(got is w.objs.get(u) for u in w.slots[pi] if u != uid):
                w.objs[uid] = got
            elif refused and len(p.modules) == max(n_before, pos + 1) and got is None:
                w.slots[pi][pos] = None
            elif refused and len(p.modules) == n_before and pos == n_before:
                w.slots[pi].pop()
            else:
                raise PropertyViolation("C14.macro.slots", "step %d: after MultiCtl.macro(initial=%r) the module list has %d entries (was %d), position %d holds %r" % (step, op[3], len(p.modules), n_before, pos, got))
        elif kind == "attach_none":
            p.attach_module(None)
            w.slots[pi].append(None)
        elif kind == "attach_own":
            own = [u for u in w.slots[pi] if u is not None]
            uid = own[op[3] % len(own)]
            p.attach_module(w.objs[uid])
            labels.add("reattach_own")
            if struct_snapshot(w) != before:
                raise PropertyViolation("C14.reattach_noop", "step %d: attaching a module twice changed the project" % step)
        elif kind == "attach_foreign":
            qi = op[2] % h["projects"]
            if qi == pi:
                qi = (pi + 1) % h["projects"]
            cands = [u for u in w.slots[qi] if u is not None]
            mod = w.objs[cands[op[3] % len(cands)]]
            if w.stale and op[3] % 3 == 0:
                mod = w.stale[op[3] % len(w.stale)]
            err = None
            try:
                if op[3] % 2:
                    p.attach_module(mod)
                else:
                    p += mod
            except Exception as e:  # noqa: BLE001
                err = e
            labels.add("refused_module")
            if not isinstance(err, ModuleOwnershipError):
                raise PropertyViolation("C14.refuse_module", "step %d: attaching a module owned by another project: expected ModuleOwnershipError, got %r" % (step, err))
            if struct_snapshot(w) != before:
                raise PropertyViolation("C14.refuse_module.unchanged", "step %d: refused attach changed a project" % step)
        elif kind in ("iadd_pattern", "attach_pattern", "iadd_clone"):
            pat = PatternClone(source=0) if kind == "iadd_clone" else Pattern(tracks=2, lines=2)
            uid = "p%d" % (len(w.pats) + 1)
            w.pats[uid] = pat
            if kind == "attach_pattern":
                r = p.attach_pattern(pat)
                if r != len(w.pat_model[pi]):
                    raise PropertyViolation("C14.attach_pattern.index", "attach_pattern returned %r, expected %d" % (r, len(w.pat_model[pi])))
            else:
                p += pat
            w.pat_model[pi].append(uid)
        elif kind == "attach_pattern_none":
            p.attach_pattern(None)
            w.pat_model[pi].append(None)
        elif kind == "attach_pattern_owned":
            qi = op[2] % h["projects"]
            cands = [u for u in w.pat_model[qi] if u is not None]
            if not cands:
                continue
            pat = w.pats[cands[op[3] % len(cands)]]
            err = None
            try:
                if op[3] % 2:
                    p.attach_pattern(pat)
                else:
                    p += pat
            except Exception as e:  # noqa: BLE001
                err = e
            labels.add("refused_pattern")
            if not isinstance(err, PatternOwnershipError):
                raise PropertyViolation("C14.refuse_pattern", "step %d: attaching an owned pattern: expected PatternOwnershipError, got %r" % (step, err))
            if struct_snapshot(w) != before:
                raise PropertyViolation("C14.refuse_pattern.unchanged", "step %d: refused pattern attach changed a project" % step)
        elif kind in ("note_set_module", "note_set_mod", "note_set_mod_unattached"):
            pats = [x for x in p.patterns if x is not None and type(x).__name__ == "Pattern"]
            if not pats:
                continue
            pat = pats[op[2] % len(pats)]
            n = pat.data[op[3] % pat.lines][(op[3] // 2) % pat.tracks]
            if kind == "note_set_module":
                n.module = op[4] % (len(p.modules) + 3)
                if n.mod is None:
                    labels.add("note_mod_none")
            elif kind == "note_set_mod":
                own = [u for u in w.slots[pi] if u is not None]
                mod = w.objs[own[op[4] % len(own)]]
                n.mod = mod
                labels.add("note_mod_set")
                if n.module != mod.index + 1 or n.mod is not mod:
                    raise PropertyViolation("C14.note_mod.setter", "note.mod = module at index %d gives note.module %d" % (mod.index, n.module))
            else:
                old = n.module
                err = None
                try:
                    n.mod = w.fresh("Amplifier")
                except Exception as e:  # noqa: BLE001
                    err = e
                labels.add("note_mod_unattached_refused")
                if not isinstance(err, ModuleOwnershipError) or n.module != old:
                    raise PropertyViolation("C14.note_mod.unattached", "note.mod = unattached module: err=%r, module %d -> %d" % (err, old, n.module))
        elif kind == "set_flags":
            own = [u for u in w.slots[pi] if u is not None]
            target = w.objs[own[op[2] % len(own)]]
            target.flags = op[3]
            labels.add("module_flags_assigned")
        elif kind in ("save_load", "blank_reload"):
            data = p.read()
            if kind == "blank_reload":
                idxs = {1 + (x % max(1, len(w.slots[pi]) - 1)) for x in op[2]} if len(w.slots[pi]) > 1 else set()
                # (a module that takes part in a link - histories with a macro have some - is not blanked: a file whose
                # links lead to an empty position is not a file any writer produces)
                idxs = {i for i in idxs if i >= len(p.modules) or p.modules[i] is None or not ([x for x in p.modules[i].in_links if x != -1] or [x for x in p.modules[i].out_links if x != -1])}
                data = build.blank_module_sections(data, idxs)
                for i in idxs:
                    if i < len(w.slots[pi]):
                        u = w.slots[pi][i]
                        w.slots[pi][i] = None
                        if u is not None:
                            w.stale.append(w.objs.pop(u))
            for u in [u for u in w.slots[pi] if u is not None]:
                w.stale.append(w.objs[u])
            q = read_sunvox_file(BytesIO(data))
            while w.slots[pi] and w.slots[pi][-1] is None:
                w.slots[pi].pop()
            if len(q.modules) != len(w.slots[pi]):
                raise PropertyViolation("C14.reload.length", "step %d: reloaded project has %d positions, model %d" % (step, len(q.modules), len(w.slots[pi])))
            for i, u in enumerate(w.slots[pi]):
                if (u is None) != (q.modules[i] is None):
                    raise PropertyViolation("C14.reload.positions", "step %d: position %d is %r after reload, model %r" % (step, i, q.modules[i], u))
                if u is not None:
                    w.objs[u] = q.modules[i]
            if len(q.patterns) != len(w.pat_model[pi]):
                raise PropertyViolation("C14.reload.patterns", "step %d: %d patterns after reload, model %d" % (step, len(q.patterns), len(w.pat_model[pi])))
            for i, u in enumerate(w.pat_model[pi]):
                if u is not None:
                    w.pats[u] = q.patterns[i]
            w.projects[pi] = q
            after_reload[pi] = True
        check_invariants(w, step, op)
    return labels


def run_shard(ctx, desc):
    def body(h):
        ctx.case()
        labels = run_history(ctx, h)
        ctx.label(*labels)
        if labels & {"gap_filled", "refused_module", "refused_pattern", "attach_after_save_load"}:
            ctx.mark_nontrivial(h)
        if len(h["ops"]) <= 12:
            ctx.sample(h)

    run_property(ctx, history(desc["steps"], big=desc.get("big", False)), body, desc["examples"], tag="history_big" if desc.get("big") else "history", bucket="history")


def replay(ctx, doc):
    run_history(ctx, doc["recipe"]["case"])
