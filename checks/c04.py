"""C04 - loading decodes foreign files per the format and skips unknown chunks."""

from __future__ import annotations

import copy
import os
import struct
from io import BytesIO

from hypothesis import strategies as st

from checks import c05
from vlib import iovariants, build, chunktools, refcodec, snapshot, specmodel
from vlib.harness import REPO, PropertyViolation, run_property

PROPERTY_ID = "C04"
LEVEL = "exploration"
RULE = (
    "(a) abstract descriptions (plain data in the snapshot vocabulary, obtained from Hypothesis-generated project/synth recipes incl. interior "
    "empty module positions) are encoded by vlib.refcodec's independent encoder - documented chunk order, 64-byte zero-padded option chunks, "
    "generated variations: foreign VERS (incl. < 1.9.5.0), BVER dropped, optional chunks dropped (TIME, REPS, PNME, SMIN, CHFR, default drawn "
    "waveform, note-pitch curve), CVAL lists truncated, independent header chunks permuted, SLNK with -1 terminator, SLnK always/only-when-"
    "needed, CHNK with slack, unknown chunks inserted at generated positions (also before the header and between CHNM and CHDT) - and loaded by "
    "the library: its snapshot must equal the description adjusted by the documented defaults. (b) every fixture: the library's snapshot must "
    "equal refcodec.decode(fixture) on every field the file specifies; structure-preserving edits of fixtures (unknown chunk at a position - "
    "thorough: every position x 3 payloads; dropped optional chunk; truncated CVAL list; permuted header chunks) must load to the same / the "
    "documented-default snapshot. non-trivial = file with an unknown chunk, a dropped optional chunk, a truncated CVAL list or an interior empty position"
    ' Also (added while the seeded-change rounds of DESIGN section 9 ran): Also: nested containers of another version era than the file (inner_vers), loading from str / Path / offset streams / mmap / unbuffered files / quiet-seek streams, and every fixture decoded in freshly started interpreters (-O, -OO, -W error, -X dev, C locale, other first imports, logging opened before import).'
)
RULE += " Rounds 12-14 of DESIGN section 9 added: half of the unknown chunk ids are four-letter words that mean something to a program (init, data, self, read, None, ...); loading also through gzip / bz2 / lzma file objects."
ASSUMPTIONS = list(refcodec.TRUSTED_BASE) + [
    "descriptions are plain data; only their generation reuses the recipe strategies, the bytes the reader sees come from the independent encoder",
    "only chunks with a documented default are dropped; enum values outside the enumeration are not well-formed and not generated",
    "CVAL truncation is not applied to MetaModules (the stored value of an unlisted user controller has no documented default)",
]
# classes of cases that are produced deterministically: their absence is a harness error (see vlib.harness)
HARD_LABELS = ['fixture', 'interpreter_optimized', 'interpreter_warnings_are_errors']
REQUIRED_LABELS = {
    "quick": ["encoded_project", "encoded_synth", "unknown_chunk", "dropped_optional", "truncated_cvals", "interior_gap", "old_version", "header_permuted", "fixture", "fixture_unknown", "fixture_dropped", "fixture_truncated", "nested_container_of_other_version_era", "interpreter_optimized", "interpreter_warnings_are_errors"],
    "thorough": ["encoded_project", "encoded_synth", "unknown_chunk", "dropped_optional", "truncated_cvals", "interior_gap", "old_version", "header_permuted", "fixture", "fixture_unknown", "fixture_dropped", "fixture_truncated", "fixture_all_positions"],
}
UNKNOWN_ALPHABET = "QXZJ0123456789"


def exhaustive(tier):
    return False


def plan(tier):
    n, per = (12, 100) if tier == "quick" else (14, 1500)
    descs = [{"kind": "encoded", "examples": per} for _ in range(n)]
    fs = c05.fixture_files()
    k = 4
    for i in range(k):
        descs.append({"kind": "fixtures", "files": fs[i::k], "edits": 20 if tier == "quick" else 60})
    if tier == "thorough":
        for i in range(8):
            descs.append({"kind": "fixture_positions", "files": fs[i::8]})
    # the fixtures decoded by the library in freshly started interpreters (python -O / -OO / -W error / -X dev, C locale ...)
    from vlib import subproc

    names = [v for v in sorted(subproc.VARIANTS) if v != "plain"]
    for i in range(3):
        descs.append({"kind": "interpreters", "variants": names[i::3]})
    return descs


def load(data):
    from rv.api import read_sunvox_file

    return read_sunvox_file(BytesIO(data))


# ... and four-letter words that mean something to a program (a reader that dispatches on the chunk id by name
# must not find a method, attribute or keyword of its own under such an id)
WORD_IDS = ["init", "end_", "chun", "data", "name", "file", "self", "read", "next", "done", "last", "obje", "____", "None", "call", "dict", "clas", "seek", "tell", "size", "type", "head", "body", "load", "save", "INIT", "Data", "EOF_", "exit", "main"]
unknown_id = st.one_of(st.text(alphabet=UNKNOWN_ALPHABET, min_size=4, max_size=4), st.sampled_from(WORD_IDS)).filter(lambda s: s.encode() not in refcodec.KNOWN_IDS)
unknown_chunk = st.tuples(st.floats(0, 1), unknown_id, st.binary(max_size=40).map(lambda b: b.hex())).map(list)


def insert_unknown(chunks, unknown):
    out = list(chunks)
    for frac, cid, payload in unknown:
        pos = min(len(out), int(frac * (len(out) + 1)))
        out.insert(pos, (cid.encode(), bytes.fromhex(payload)))
    return out


# --- (a) encoded descriptions -----------------------------------------------------------------------


@st.composite
def encoded_case(draw):
    if draw(st.booleans()):
        src = {"kind": "project", "spec": draw(build.project_spec(depth=1, max_modules=5, max_patterns=3, top=True))}
    else:
        src = {"kind": "synth", "spec": draw(build.module_spec(in_project=False, depth=1))}
    var = {
        "vers": draw(st.sampled_from([[2, 1, 2, 1], [1, 9, 4, 0], [1, 9, 5, 0], [1, 7, 0, 0], [2, 0, 0, 0], [9, 9, 9, 9], [1, 9, 4, 255]])),
        "drop": draw(st.lists(st.sampled_from(["BVER", "TIME", "REPS", "PNME", "SMIN", "CHFR", "drawn_waveform", "np_curve"]), max_size=4, unique=True)),
        "cval_keep": draw(st.one_of(st.none(), st.dictionaries(st.integers(0, 6), st.integers(0, 8), max_size=3))),
        "header_perm": draw(st.one_of(st.none(), st.lists(st.integers(0, 9), min_size=3, max_size=7))),
        "slnk_terminator": draw(st.booleans()),
        "options_pad64": draw(st.booleans()),
        "chnk_slack": draw(st.sampled_from([0, 0, 1, 200])),
        "write_slnk_always": draw(st.booleans()),
        # nested containers (embedded projects, effects) may come from another SunVox version than the file around them
        "inner_vers": draw(st.sampled_from([None, None, [2, 1, 2, 1], [1, 9, 4, 0], [1, 9, 5, 0], [1, 7, 0, 0]])),
    }
    if draw(st.integers(0, 4)) == 0:
        # version eras meet: a container of one era nested in a file of the other, with wide (16-bit)
        # module columns in the patterns of both
        wide = lambda: [draw(st.sampled_from([0, 1, 49])), draw(st.integers(0, 129)), draw(st.sampled_from([0x0100, 0x0123, 0xFFFF, 0x01FF])), 0, 0]  # noqa: E731
        ms = draw(build.module_spec(in_project=True, depth=1, tname="MetaModule"))
        ms["payload"]["project"]["patterns"].append({"kind": "pattern", "tracks": 2, "lines": 2, "fields": {}, "cells": [[0, 0, wide()], [1, 1, wide()]]})
        if src["kind"] == "project":
            src["spec"]["modules"].append(ms)
            src["spec"]["patterns"].append({"kind": "pattern", "tracks": 1, "lines": 2, "fields": {}, "cells": [[1, 0, wide()]]})
        else:
            src["spec"] = dict(ms)
        old, new = draw(st.sampled_from([[1, 9, 4, 0], [1, 7, 0, 0], [1, 9, 4, 255]])), draw(st.sampled_from([[1, 9, 5, 0], [2, 1, 2, 1]]))
        var["vers"], var["inner_vers"] = (old, new) if draw(st.booleans()) else (new, old)
    src["var"] = var
    src["unknown"] = draw(st.lists(unknown_chunk, max_size=4))
    return src


def expected_after(desc, var, kind):
    """Apply the documented consequences of the encoder variations to the description."""
    spec = specmodel.load()
    e = copy.deepcopy(desc)
    drop = set(var["drop"])

    def fix_module(m, position):
        if m is None:
            return
        mt = spec[m["class"]]
        if "SMIN" in drop:
            m["midi_out_name"] = None
        keep = None
        if var["cval_keep"] and m["class"] != "MetaModule":
            k = var["cval_keep"].get(str(position), var["cval_keep"].get(position))
            if k is not None:
                keep = k
        if keep is not None:
            for i, c in enumerate(mt.controllers):
                if i >= keep:
                    if c.kind == "enum":
                        m["controllers"][c.name] = [c.enum, c.members[c.default]]
                    elif c.kind == "bool":
                        m["controllers"][c.name] = int(c.default)
                    else:
                        m["controllers"][c.name] = c.default
                    m["cmid"][c.name] = [0, 0, 0, 0]
        pl = m["payload"]
        if m["class"] == "MultiSynth" and "np_curve" in drop:
            pl["np_curve"] = refcodec.yaml_default(mt, "note_pitch_curve")
        if m["class"] == "MetaModule":
            fix_project(pl["project"], inner=True)
        if m["class"] == "Sampler" and pl.get("effect"):
            fix_module_inner(pl["effect"]["module"])

    def fix_module_inner(m):
        # nested objects are encoded with the plain inner variations (version + option padding only)
        if m["class"] == "MetaModule":
            fix_project(m["payload"]["project"], inner=True)
        if m["class"] == "Sampler" and m["payload"].get("effect"):
            fix_module_inner(m["payload"]["effect"]["module"])

    def fix_project(p, inner=False):
        if not inner:
            if "BVER" in drop:
                p["based_on_version"] = [1, 7, 0, 0]
            if "TIME" in drop:
                p["timeline_position"] = 0
            if "REPS" in drop:
                p["restart_position"] = 0
        if tuple((var.get("inner_vers") or var["vers"]) if inner else var["vers"]) < (1, 9, 5, 0):
            for pt in p["patterns"]:
                if pt and pt["kind"] == "pattern":
                    for line in pt["data"]:
                        for c in line:
                            c[2] &= 0xFF
        for pt in p["patterns"]:
            if not inner and pt and pt["kind"] == "pattern" and "PNME" in drop:
                pt["name"] = None
        for i, m in enumerate(p["modules"]):
            if inner:
                if m is not None:
                    fix_module_inner(m)
            else:
                fix_module(m, i)

    if kind == "project":
        fix_project(e)
    else:
        fix_module(e["module"], 1)
    return e


def run_encoded(ctx, case):
    from rv.api import Synth

    if case["kind"] == "project":
        obj = build.make_project(case["spec"])
    else:
        obj = Synth(build.make_module(case["spec"]))
    desc = snapshot.snap(obj)
    v = dict(case["var"])
    if v["cval_keep"]:
        v["cval_keep"] = {int(k): n for k, n in v["cval_keep"].items()}
    var = refcodec.Variations(**v)
    chunks = refcodec.encode(desc, var)
    chunks = insert_unknown(chunks, case["unknown"])
    data = chunktools.build(chunks)
    loaded = load(data)
    got = snapshot.snap(loaded)
    want = expected_after(desc, case["var"], case["kind"])
    d = snapshot.diff(want, got)
    if d:
        segs = [s for s in d[0][0].split("/") if s and not s.isdigit()]
        raise PropertyViolation(
            "C04.encoded.decoding",
            "independently encoded %s loads differently (description vs library): %s" % (case["kind"], "; ".join("%s: %r vs %r" % x for x in d[:4])),
            key="C04.encoded.decoding:" + "/".join(segs[:4]),
        )
    # the same foreign file read from disk (str path / pathlib.Path) decodes the same
    iovariants.loaders_agree(data, got, snapshot.snap, "C04", ".sunvox" if case["kind"] == "project" else ".sunsynth")
    if case["kind"] == "project":
        ver = tuple(loaded.loaded_sunvox_version)
        if list(ver) != list(case["var"]["vers"]):
            raise PropertyViolation("C04.encoded.version", "VERS %r loads as %r" % (case["var"]["vers"], ver))
    labels = {"encoded_" + case["kind"]}
    if case["unknown"]:
        labels.add("unknown_chunk")
    if case["var"]["drop"]:
        labels.add("dropped_optional")
    if case["var"]["cval_keep"]:
        labels.add("truncated_cvals")
    if case["kind"] == "project" and case["spec"].get("blank"):
        labels.add("interior_gap")
    if tuple(case["var"]["vers"]) < (1, 9, 5, 0):
        labels.add("old_version")
    iv = case["var"].get("inner_vers")
    if iv and (tuple(iv) < (1, 9, 5, 0)) != (tuple(case["var"]["vers"]) < (1, 9, 5, 0)):
        labels.add("nested_container_of_other_version_era")
    if case["var"]["header_perm"]:
        labels.add("header_permuted")
    return labels


# --- (b) fixtures and structure-preserving edits ------------------------------------------------------


def known_diff(dec, snap):
    """Differences on fields the file specifies (fields absent from the decoded description are unspecified)."""
    return [x for x in snapshot.diff(dec, snap, limit=60) if x[1] != "<absent>"]


@st.composite
def fixture_edit(draw, rel, chunks):
    kind = draw(st.sampled_from(["unknown", "unknown", "drop", "truncate", "permute"]))
    e = {"file": rel, "kind": kind}
    if kind == "unknown":
        e["unknown"] = draw(st.lists(unknown_chunk, min_size=1, max_size=3))
    elif kind == "drop":
        cands = [i for i, (cid, p) in enumerate(chunks) if cid in (b"TIME", b"REPS", b"PNME", b"SMIN", b"BVER")]
        if not cands:
            e["kind"] = "unknown"
            e["unknown"] = draw(st.lists(unknown_chunk, min_size=1, max_size=2))
        else:
            e["drop_index"] = draw(st.sampled_from(cands))
    elif kind == "truncate":
        info, types = c05.section_info(chunks)
        mods = sorted({m for m, k in info if k is not None and types.get(m) not in (None, "MetaModule")})
        if not mods:
            e["kind"] = "unknown"
            e["unknown"] = draw(st.lists(unknown_chunk, min_size=1, max_size=2))
        else:
            m = draw(st.sampled_from(mods))
            total = max(k for mm, k in info if mm == m and k is not None) + 1
            e["module"] = m
            e["keep"] = draw(st.integers(0, total))
    else:
        e["perm"] = draw(st.lists(st.integers(0, 9), min_size=3, max_size=6))
    return e


def apply_fixture_edit(chunks, e):
    """Returns (edited chunk list, adjust(expected snapshot) -> expected snapshot)."""
    spec = specmodel.load()
    if e["kind"] == "unknown":
        return insert_unknown(chunks, e["unknown"]), lambda s: s
    if e["kind"] == "drop":
        i = e["drop_index"]
        cid = chunks[i][0]
        out = chunks[:i] + chunks[i + 1 :]
        info, _ = c05.section_info(chunks)

        def adjust(s):
            s = copy.deepcopy(s)
            if cid == b"TIME":
                s["timeline_position"] = 0
            elif cid == b"REPS":
                s["restart_position"] = 0
            elif cid == b"BVER":
                s["based_on_version"] = [1, 7, 0, 0]
            elif cid == b"SMIN":
                m = info[i][0]
                (s["module"] if s["kind"] == "synth" else s["modules"][m])["midi_out_name"] = None
            elif cid == b"PNME":
                # which pattern: count PEND before i
                pi = sum(1 for c, _ in chunks[:i] if c == b"PEND")
                s["patterns"][pi]["name"] = None
            return s

        return out, adjust
    if e["kind"] == "truncate":
        info, types = c05.section_info(chunks)
        m, keep = e["module"], e["keep"]
        out = []
        for i, (cid, p) in enumerate(chunks):
            mm, k = info[i]
            if mm == m and k is not None and k >= keep:
                continue
            if cid == b"CMID" and mm == m:
                if keep == 0:
                    continue
                p = p[: 8 * keep]
            out.append((cid, p))
        t = types[m]

        def adjust(s):
            s = copy.deepcopy(s)
            mod = s["module"] if s["kind"] == "synth" else s["modules"][m]
            for i, c in enumerate(spec[t].controllers):
                if i >= keep:
                    if c.kind == "enum":
                        mod["controllers"][c.name] = [c.enum, c.members[c.default]]
                    elif c.kind == "bool":
                        mod["controllers"][c.name] = int(c.default)
                    else:
                        mod["controllers"][c.name] = c.default
                    mod["cmid"][c.name] = [0, 0, 0, 0]
            return s

        return out, adjust
    # permute the independent project header chunks (everything after VERS/BVER up to the first pattern/module)
    first = next((i for i, (cid, _) in enumerate(chunks) if cid in (b"PDTA", b"PPAR", b"PEND", b"SFFF", b"SEND")), len(chunks))
    head = [i for i in range(first) if chunks[i][0] not in (b"SVOX", b"SSYN", b"VERS", b"BVER")]
    perm = e["perm"]
    order = sorted(head, key=lambda i: perm[i % len(perm)] * 1000 + i)
    out = list(chunks)
    for dst, src in zip(head, order):
        out[dst] = chunks[src]
    return out, lambda s: s


def run_fixture_edit(ctx, e, cache):
    rel = e["file"]
    if rel not in cache:
        with open(os.path.join(REPO, "tests", "files", rel), "rb") as f:
            data = f.read()
        chunks = chunktools.parse(data)
        base = snapshot.snap(load(data))
        dec = refcodec.strip_private(refcodec.decode(data, strict=False))
        cache[rel] = (chunks, base, dec)
    chunks, base, dec = cache[rel]
    edited, adjust = apply_fixture_edit(chunks, e)
    got = snapshot.snap(load(chunktools.build(edited)))
    want = adjust(base)
    d = snapshot.diff(want, got)
    if d:
        segs = [s for s in d[0][0].split("/") if s and not s.isdigit()]
        raise PropertyViolation(
            "C04.fixture_edit." + e["kind"],
            "%s with edit %r loads differently from the expected snapshot: %s" % (rel, {k: v for k, v in e.items() if k != "file"}, "; ".join("%s: %r vs %r" % x for x in d[:3])),
            key="C04.fixture_edit.%s:%s" % (e["kind"], "/".join(segs[:3])),
        )
    return {"fixture_" + {"unknown": "unknown", "drop": "dropped", "truncate": "truncated", "permute": "permuted"}[e["kind"]]}


def fixture_digests():
    """{fixture: digest of what the library reports after loading it, and of what it writes back}"""
    import hashlib
    import json

    from vlib.harness import jsonable

    out = {}
    for f in c05.fixture_files():
        rel = os.path.relpath(f, os.path.join(REPO, "tests", "files"))
        with open(f, "rb") as fh:
            data = fh.read()
        try:
            obj = load(data)
            out[rel] = hashlib.sha256(json.dumps(jsonable(snapshot.snap(obj)), sort_keys=True).encode()).hexdigest()[:16] + ":" + hashlib.sha256(obj.read()).hexdigest()[:16]
        except Exception as e:  # noqa: BLE001
            out[rel] = "raised " + type(e).__name__
    return out


def run_interpreters(ctx, desc):
    """How the interpreter was started is not part of a file: every fixture decodes (and is written
    back) the same in interpreters started with -O, -OO, -W error, -X dev, in the C locale, after
    other first imports ... as in this process."""
    from vlib import subproc

    here = fixture_digests()
    body = "from checks import c04\nimport logging\nlogging.disable(logging.CRITICAL)\nRESULT = c04.fixture_digests()\n"
    for v in desc["variants"]:
        res = subproc.run(v, body)
        rec = {"op": "interpreter", "variant": v}
        ctx.case(len(here))
        if res.get("__failed__"):
            ctx.check(False, "C04.interpreter.fails", "loading the fixtures in a fresh interpreter (%s) failed: rc=%r %s" % (v, res.get("returncode"), (res.get("stderr") or "")[-500:]), key="C04.interpreter:" + v, recipe=rec)
            continue
        bad = sorted(k for k in here if res.get(k) != here[k])
        ctx.check(not bad, "C04.interpreter.decodes_differently", "in an interpreter started as %r %d fixture(s) load or re-save differently, e.g. %s: %r vs %r here" % (v, len(bad), bad[:1], res.get(bad[0]) if bad else None, here.get(bad[0]) if bad else None), key="C04.interpreter:" + v, recipe=rec)
        ctx.label("interpreter_" + v)
        ctx.mark_nontrivial(rec)
        ctx.sample(rec)


def run_shard(ctx, desc):
    k = desc["kind"]
    if k == "interpreters":
        run_interpreters(ctx, desc)
        return
    if k == "encoded":

        def body(case):
            ctx.case()
            labels = run_encoded(ctx, case)
            ctx.label(*labels)
            if labels & {"unknown_chunk", "dropped_optional", "truncated_cvals", "interior_gap"}:
                ctx.mark_nontrivial(case)
            if len(repr(case)) < 1800:
                ctx.sample(case)

        run_property(ctx, encoded_case(), body, desc["examples"], tag="encoded", bucket="encoded")
        return
    cache = {}
    if k == "fixtures":
        for f in desc["files"]:
            rel = os.path.relpath(f, os.path.join(REPO, "tests", "files"))
            with open(f, "rb") as fh:
                data = fh.read()
            ctx.case()
            ctx.label("fixture")
            try:
                dec = refcodec.strip_private(refcodec.decode(data, strict=False))
            except refcodec.FormatError as e:
                ctx.check(False, "C04.fixture.reference_decodes", "%s: reference decoder rejects the fixture: %s %s" % (rel, e.rule, e.detail), recipe={"file": rel})
                continue
            lib = snapshot.snap(load(data))
            d = known_diff(dec, lib)
            ctx.check(not d, "C04.fixture.decoding", "%s: file says vs library reports: %s" % (rel, "; ".join("%s: %r vs %r" % x for x in d[:4])), key="C04.fixture.decoding:" + rel, recipe={"file": rel})
            ctx.mark_nontrivial(["fixture", rel])
            chunks = chunktools.parse(data)

            def body(e):
                ctx.case()
                labels = run_fixture_edit(ctx, e, cache)
                ctx.label(*labels)
                ctx.mark_nontrivial(e)
                if len(repr(e)) < 600:
                    ctx.sample(e)

            if not run_property(ctx, fixture_edit(rel, chunks), body, desc["edits"], tag="fixture_edit", bucket="fixture_edit"):
                return
        return
    if k == "fixture_positions":
        for f in desc["files"]:
            rel = os.path.relpath(f, os.path.join(REPO, "tests", "files"))
            with open(f, "rb") as fh:
                chunks = chunktools.parse(fh.read())
            n = 0
            for pos in range(len(chunks) + 1):
                for cid, payload in (("QX01", ""), ("ZZ9J", "00"), ("J0Q0", "ff" * 33)):
                    e = {"file": rel, "kind": "unknown", "unknown": [[(pos + 0.5) / (len(chunks) + 1), cid, payload]]}
                    ctx.case()
                    try:
                        run_fixture_edit(ctx, e, cache)
                    except PropertyViolation as v:
                        ctx.check(False, v.sub_oracle, v.detail, key=v.key, recipe={"tag": "fixture_edit", "case": e})
                    except Exception as ex:  # noqa: BLE001
                        from vlib.harness import as_violation

                        v = as_violation(ex, "C04", "fixture_edit")
                        if v is None:
                            raise
                        ctx.check(False, v.sub_oracle, "%s at position %d: %s" % (rel, pos, v.detail), key=v.key, recipe={"tag": "fixture_edit", "case": e})
                    n += 1
            ctx.mark_nontrivial_count("positions:" + rel, n)
            ctx.label("fixture_all_positions")
            ctx.sample({"file": rel, "positions": len(chunks) + 1, "payloads": 3})


def replay(ctx, doc):
    if doc["recipe"].get("op") == "interpreter":
        from vlib.harness import Ctx

        c2 = Ctx(ctx.prop, ctx.tier, ctx.seed, 0, 1, [])
        run_interpreters(c2, {"variants": [doc["recipe"]["variant"]]})
        if c2.failures:
            raise PropertyViolation(c2.failures[0]["sub_oracle"], c2.failures[0]["detail"], c2.failures[0]["key"])
        return
    r = doc["recipe"]
    if r.get("tag") == "encoded":
        run_encoded(ctx, r["case"])
    elif r.get("tag") == "fixture_edit":
        run_fixture_edit(ctx, r["case"], {})
    elif "file" in r:
        with open(os.path.join(REPO, "tests", "files", r["file"]), "rb") as fh:
            data = fh.read()
        dec = refcodec.strip_private(refcodec.decode(data, strict=False))
        d = known_diff(dec, snapshot.snap(load(data)))
        if d:
            raise PropertyViolation("C04.fixture.decoding", "%s: %r" % (r["file"], d[:3]))
