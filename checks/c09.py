"""C09 - controller assignment enforces declared domains; defaults match the spec."""

from __future__ import annotations

import enum

from hypothesis import strategies as st

from vlib import specmodel
from vlib import strategies as vs
from vlib.harness import PropertyViolation, run_property

PROPERTY_ID = "C09"
LEVEL = "exploration"
RULE = (
    "(a) complete enumeration over all 43 types x all spec'd controllers x {default, min-1, min, min+1, mid, max-1, max, "
    "max+1 | every enum member by value/name/object + invalid name + out-of-enum ints | both booleans | every unit variant} "
    "x {strict, lenient} x {setattr, constructor keyword}, each shard after a different prelude (nothing / successful loads / failed loads / a load failing inside a nested load); (b) Hypothesis: random assignment histories on one module "
    "(previous values vary; steps include an out-of-range value stored under lenient mode - what a load does - and strict re-assignment of whatever the controller currently holds, which must be refused when that value is out of range). distinct = (type, controller, unit, value, mode, path) tuple / history hash; non-trivial = value "
    "at or one beyond a bound, invalid enum input, or assignment over a non-default previous value"
    ' Also (added while the seeded-change rounds of DESIGN section 9 ran): Also: modules carrying tricky names and sitting in projects, change hooks that assign a sibling controller, and the stock classes after a program derived its own subclasses.'
)
RULE += " Rounds 12-14 of DESIGN section 9 added: every accepted assignment repeated on a module that is wired up inside a project; MetaModules whose user-defined controllers are named after the MetaModule's own controllers."
ASSUMPTIONS = [
    "YAML min/max/default/enum tables are the declared domains",
    "unit-dependent ranges are not 'fixed ranges': only their in-range behaviour is claimed",
    "the class of the exception raised for an invalid enum name/value is not claimed, only that one is raised and the previous value stays",
]
# classes of cases that are produced deterministically: their absence is a harness error (see vlib.harness)
HARD_LABELS = ['strict_reject', 'lenient_accept', 'ctor_reject', 'prelude_user_subclasses', 'in_worker_thread']
REQUIRED_LABELS = {"quick": ["strict_reject", "lenient_accept", "ctor_reject", "enum_by_name", "dependent_unit", "history_lenient_out_of_range", "history_repeat_out_of_range_strict", "history_repeat_in_range", "prelude_user_subclasses", "change_hook_assigns_sibling", "in_worker_thread"], "thorough": ["strict_reject", "lenient_accept", "ctor_reject", "enum_by_name", "dependent_unit"]}


def exhaustive(tier):
    return False


def plan(tier):
    names = sorted(specmodel.load())
    descs = []
    k = 8
    for i in range(k):
        # the library may have been used before the assignment: nothing, a successful load, a failed load
        descs.append({"kind": "enum", "types": names[i::k], "prelude": ["none", "load_ok", "load_fails", "load_fails_nested"][i % 4]})
    # the stock classes once more, after a program has derived classes of its own from them
    descs.append({"kind": "enum", "types": names[::5], "prelude": "user_subclasses"})
    n = 8
    per = 300 if tier == "quick" else 5000
    for i in range(n):
        descs.append({"kind": "random", "examples": per})
    return descs


def classes():
    import rv.modules as m

    return dict(m.MODULE_CLASSES)


def to_lib(cls, c, v):
    if isinstance(v, list) and v and v[0] == "enum":
        return getattr(cls.controllers[c.name].value_type, v[1])
    return v


def same(got, want):
    if isinstance(want, enum.Enum):
        return got is want
    if isinstance(want, bool):
        return got is want or (got == want and isinstance(got, (bool, int)))
    return got == want and not isinstance(got, bool)


_DRESS = {"k": 0}


def label_user_controllers(mm, labels):
    """A MetaModule whose user-defined controllers (mapped onto an embedded Amplifier) carry the given names - names
    that happen to be those of the MetaModule's own controllers or options are ordinary names."""
    from rv.api import m

    mm.project.new_module(m.Amplifier)
    for i, lab in enumerate(labels):
        mm.mappings.values[i] = mm.Mapping((1, i % 6))
    mm.user_defined_controllers = len(labels)
    mm.update_user_defined_controllers()
    for i, lab in enumerate(labels):
        mm.user_defined[i].label = lab
    return mm


def dress(mod, k=None):
    """Circumstances that have nothing to do with a controller's domain: the module may carry any
    name (also one that means something to a string template) and may sit in a project.
    k selects the circumstances (a function of the case, so that a replay dresses alike)."""
    from rv.api import Project

    if k is None:
        k = _DRESS["k"] = _DRESS["k"] + 1
    if type(mod).__name__ == "MetaModule" and k % 2 == 0:
        label_user_controllers(mod, [c.replace("_", " ").title() for c in list(type(mod).controllers)[:5]] + ["Arpeggiator", "volume"])
    if k % 3 == 0:
        mod.name = vs.TRICKY_TEXTS[(k // 3) % len(vs.TRICKY_TEXTS)]
    if k % 4 == 0:
        p = Project()
        for _ in range(k % 3):
            p.attach_module(None)
        p.attach_module(mod)
        if k % 8 == 0:
            # ... and is wired up there: it feeds an Amplifier (9 controllers) and the output, a Generator feeds it
            from rv.api import m

            amp, gen = p.new_module(m.Amplifier), p.new_module(m.Generator)
            mod >> amp
            if k % 16 == 0:
                mod >> p.output
            gen >> mod
    return mod


def set_flag(strict):
    """Strict is the library's default mode and is *not* forced by the check (so that a mode
    left behind by earlier use of the library shows); lenient is entered explicitly and the
    previous value is put back afterwards."""
    import rv.errors

    if strict is True:
        return None
    prev = rv.errors.RAISE_CONTROLLER_VALUE_ERRORS
    rv.errors.RAISE_CONTROLLER_VALUE_ERRORS = bool(strict)
    return prev


def restore_flag(prev):
    import rv.errors

    if prev is not None:
        rv.errors.RAISE_CONTROLLER_VALUE_ERRORS = prev


def enum_type(ctx, tname, cls_override=None):
    from rv.errors import ControllerValueError

    spec = specmodel.load()
    mt = spec[tname]
    cls = cls_override or classes()[mt.mtype]
    fresh = cls()
    for c in mt.controllers:
        ent = "%s.%s" % (tname, c.name)
        ctx.case()
        got = getattr(fresh, c.name)
        if c.kind == "enum":
            want = getattr(cls.controllers[c.name].value_type, c.default, None)
        else:
            want = c.default
        ctx.check(same(got, want), "C09.default", "%s default is %r, spec says %r" % (ent, got, want), key="C09.default:" + ent, recipe={"op": "default", "type": tname, "ctl": c.name})

    def attempt(strict, path, c, prev, v, expect, unit=None):
        _attempt(strict, path, c, prev, v, expect, unit, None)
        if path == "setattr" and expect == "ok":
            # the same assignment on a module that sits in a project and is wired to other modules there
            _attempt(strict, path, c, prev, v, expect, unit, 16)
            ctx.label("accept_on_wired_module")

    def _attempt(strict, path, c, prev, v, expect, unit, dress_k):
        """expect in {'ok','reject','any_error','no_cve'}"""
        ent = "%s.%s" % (tname, c.name)
        rec = {"op": "assign", "type": tname, "ctl": c.name, "unit": unit, "prev": repr(prev), "value": repr(v), "strict": strict, "path": path, "expect": expect}
        ctx.case()
        key = "%s|%s|%s|%s|%s" % (ent, unit, repr(v), strict, path)
        prev_flag = set_flag(strict)
        try:
            err = None
            if path == "setattr":
                mod = cls()
                dress(mod, __import__("zlib").crc32(key.encode()) % 600 if dress_k is None else dress_k)
                if unit is not None:
                    setattr(mod, c.depends_on, getattr(cls.controllers[c.depends_on].value_type, unit))
                if prev is not None:
                    setattr(mod, c.name, prev)
                before = getattr(mod, c.name)
                try:
                    setattr(mod, c.name, v)
                except Exception as e:  # noqa: BLE001
                    err = e
                after = getattr(mod, c.name)
            else:
                kw = {c.name: v}
                if unit is not None:
                    kw[c.depends_on] = getattr(cls.controllers[c.depends_on].value_type, unit)
                before = None
                try:
                    mod = cls(**kw)
                    after = getattr(mod, c.name)
                except Exception as e:  # noqa: BLE001
                    err = e
                    after = None
        finally:
            restore_flag(prev_flag)
        so = "C09.%s.%s" % (path, expect)
        if expect == "ok":
            want = v
            if c.kind == "enum":
                vt = cls.controllers[c.name].value_type
                want = vt[v] if isinstance(v, str) else vt(v)
            okk = err is None and same(after, want)
            ctx.check(okk, so, "%s <- %r (%s, unit=%s): error=%r reads %r, wanted %r" % (ent, v, "strict" if strict else "lenient", unit, err, after, want), key=so + ":" + ent, recipe=rec)
            ctx.label("accept")
        elif expect == "reject":
            okk = isinstance(err, ControllerValueError)
            ctx.check(okk, so, "%s <- %r strict: expected ControllerValueError, got %r (reads %r)" % (ent, v, err, after), key=so + ":" + ent, recipe=rec)
            if path == "setattr":
                ctx.check(same(after, before), so + ".prev_kept", "%s <- %r rejected but value changed %r -> %r" % (ent, v, before, after), key=so + ".prev_kept:" + ent, recipe=rec)
                ctx.label("strict_reject")
            else:
                ctx.label("ctor_reject")
            ctx.mark_nontrivial(key)
        elif expect == "any_error":
            okk = err is not None
            ctx.check(okk, so, "%s <- %r: expected an exception, none raised (reads %r)" % (ent, v, after), key=so + ":" + ent, recipe=rec)
            if path == "setattr":
                ctx.check(same(after, before), so + ".prev_kept", "%s <- %r raised but value changed %r -> %r" % (ent, v, before, after), key=so + ".prev_kept:" + ent, recipe=rec)
            ctx.label("enum_invalid")
            ctx.mark_nontrivial(key)
        elif expect == "no_cve":
            okk = not isinstance(err, ControllerValueError)
            ctx.check(okk, so, "%s <- %r lenient: ControllerValueError raised" % (ent, v), key=so + ":" + ent, recipe=rec)
            ctx.label("lenient_accept")
            ctx.mark_nontrivial(key)
        if prev is not None or v in ():
            ctx.mark_nontrivial(key)

    for c in mt.controllers:
        for path in ("setattr", "ctor"):
            if c.kind in ("range", "compact", "no_offset"):
                lo, hi = c.min, c.max
                mid = (lo + hi) // 2
                inr = sorted({lo, min(hi, lo + 1), mid, max(lo, hi - 1), hi})
                for strict in (True, False):
                    for v in inr:
                        attempt(strict, path, c, None, v, "ok")
                        if v in (lo, hi):
                            ctx.mark_nontrivial("%s.%s|%r|%s|%s" % (tname, c.name, v, strict, path))
                    for prev in (lo, hi):
                        if path == "setattr":
                            attempt(strict, path, c, prev, mid, "ok")
                for v in (lo - 1, hi + 1, lo - 1000, hi + 100000):
                    for prev in (None, lo, hi) if path == "setattr" else (None,):
                        attempt(True, path, c, prev, v, "reject")
                    attempt(False, path, c, None, v, "no_cve")
            elif c.kind == "enum":
                vt = cls.controllers[c.name].value_type
                members = list(vt)
                first = members[0]
                for m in members:
                    for form, v in (("value", m.value), ("name", m.name), ("member", m)):
                        for strict in (True, False):
                            attempt(strict, path, c, None, v, "ok")
                        if path == "setattr":
                            other = members[-1] if m is not members[-1] else first
                            attempt(True, path, c, other, v, "ok")
                        if form == "name":
                            ctx.label("enum_by_name")
                vals = {m.value for m in members}
                bad_ints = [x for x in (-1, max(vals) + 1, 1000) if x not in vals]
                for v in bad_ints + ["no_such_member", ""]:
                    for prev in (None, members[-1]) if path == "setattr" else (None,):
                        attempt(True, path, c, prev, v, "any_error")
            elif c.kind == "bool":
                for v in (False, True):
                    for strict in (True, False):
                        attempt(strict, path, c, None, v, "ok")
                    if path == "setattr":
                        attempt(True, path, c, not v, v, "ok")
            elif c.kind == "dependent":
                for unit, (lo, hi) in c.ranges.items():
                    mid = (lo + hi) // 2
                    for v in sorted({lo, mid, hi}):
                        attempt(True, path, c, None, v, "ok", unit=unit)
                        ctx.label("dependent_unit")
                        ctx.mark_nontrivial("%s.%s|%s|%r|%s" % (tname, c.name, unit, v, path))
    ctx.sample({"type": tname, "controllers": len(mt.controllers)})


# ---------------------------------------------------------------------------------------
# random histories


@st.composite
def history(draw):
    spec = specmodel.load()
    tname = draw(st.sampled_from(sorted(n for n in spec if spec[n].controllers)))
    mt = spec[tname]
    fixed = [c for c in mt.controllers if c.kind != "dependent"]
    n = draw(st.integers(1, 12))
    steps = []
    strict = draw(st.booleans()) or True
    for _ in range(n):
        c = draw(st.sampled_from(fixed))
        if c.kind in ("range", "compact", "no_offset"):
            mode = draw(st.sampled_from(["in", "in", "in", "below", "above", "lenient_out", "repeat", "repeat", "hook_in", "hook_out"]))
            if mode in ("hook_in", "hook_out"):
                # the module's change hook for this controller assigns another (ranged) controller of the
                # same module: an in-range value there, or an out-of-range one (which must be refused there too)
                others = [x for x in fixed if x.kind in ("range", "compact", "no_offset") and x.name != c.name]
                if others:
                    d = draw(st.sampled_from(others))
                    dv = draw(vs.edge_int(d.min, d.max)) if mode == "hook_in" else d.max + draw(st.integers(1, 999))
                    steps.append([c.name, mode, [draw(vs.edge_int(c.min, c.max)), d.name, dv]])
                continue
            if mode == "repeat":
                # assign again whatever the controller holds now (in strict mode)
                steps.append([c.name, "repeat", None])
                continue
            if mode == "lenient_out":
                # what a lenient context (the one loads run in) does with an out-of-range value: keeps it
                v = draw(st.sampled_from([c.min - 1, c.max + 1, c.max + draw(st.integers(1, 5000)), c.min - draw(st.integers(1, 5000))]))
                steps.append([c.name, "lenient_out", v])
                continue
            if mode == "in":
                v = draw(vs.edge_int(c.min, c.max))
            elif mode == "below":
                v = c.min - draw(st.integers(1, 5000))
            else:
                v = c.max + draw(st.integers(1, 5000))
            steps.append([c.name, mode, v])
        elif c.kind == "enum":
            mode = draw(st.sampled_from(["value", "name", "badname", "badvalue"]))
            mname = draw(st.sampled_from(sorted(c.members)))
            if mode == "value":
                steps.append([c.name, "enum_value", c.members[mname]])
            elif mode == "name":
                steps.append([c.name, "enum_name", mname])
            elif mode == "badname":
                steps.append([c.name, "enum_badname", mname + "_x"])
            else:
                bad = max(c.members.values()) + draw(st.integers(1, 300))
                steps.append([c.name, "enum_badvalue", bad])
        else:
            steps.append([c.name, "bool", draw(st.booleans())])
    return {"type": tname, "steps": steps, "dress": draw(st.integers(0, 600))}


def run_history(ctx, h):
    from rv.errors import ControllerValueError

    spec = specmodel.load()
    mt = spec[h["type"]]
    cls = classes()[mt.mtype]
    mod = dress(cls(), h.get("dress", 1))
    model = {}
    for c in mt.controllers:
        if c.kind == "dependent":
            continue
        model[c.name] = getattr(cls.controllers[c.name].value_type, c.default) if c.kind == "enum" else c.default
    if mt.cls_name == "Smooth" and ctx.is_known("C09.default:Smooth.scale"):
        model["scale"] = getattr(mod, "scale")
    nontriv = False
    lenient_stored = set()
    labels = set()
    for name, mode, v in h["steps"]:
        c = mt.ctl(name)
        prev = model[name]
        if prev != (getattr(cls.controllers[name].value_type, c.default) if c.kind == "enum" else c.default):
            nontriv = True
        err = None
        ent = "%s.%s" % (h["type"], name)
        if mode == "lenient_out":
            flag_prev = set_flag(False)
            try:
                setattr(mod, name, v)
            except Exception as e:  # noqa: BLE001
                err = e
            finally:
                restore_flag(flag_prev)
            got = getattr(mod, name)
            if err is not None or not same(got, v):
                raise PropertyViolation("C09.history.lenient_keeps", "%s <- %r in lenient mode: err=%r reads %r" % (ent, v, err, got), key="C09.history.lenient_keeps:" + ent)
            model[name] = v
            lenient_stored.add(name)
            labels.add("history_lenient_out_of_range")
            continue
        if mode in ("hook_in", "hook_out"):
            v, dname, dv = v
            fired = []

            def hook(value, down=False, up=False, _d=dname, _dv=dv):
                fired.append(value)
                setattr(mod, _d, _dv)

            setattr(mod, "on_%s_changed" % name, hook)
            try:
                setattr(mod, name, v)
            except Exception as e:  # noqa: BLE001
                err = e
            finally:
                mod.__dict__.pop("on_%s_changed" % name, None)
            labels.add("change_hook_assigns_sibling")
            if not fired:
                continue  # this module type does not call instance hooks for this controller: nothing to claim
            if not same(getattr(mod, name), v):
                raise PropertyViolation("C09.history.hook.source", "%s <- %r with a change hook: reads %r" % (ent, v, getattr(mod, name)), key="C09.history.hook:" + ent)
            model[name] = v
            lenient_stored.discard(name)
            if mode == "hook_in":
                if err is not None or not same(getattr(mod, dname), dv):
                    raise PropertyViolation("C09.history.hook.accept", "%s.%s <- %r from inside the change hook of %s: err=%r reads %r" % (h["type"], dname, dv, name, err, getattr(mod, dname)), key="C09.history.hook:%s.%s" % (h["type"], dname))
                model[dname] = dv
                lenient_stored.discard(dname)
            else:
                if not isinstance(err, ControllerValueError) or not same(getattr(mod, dname), model[dname]):
                    raise PropertyViolation("C09.history.hook.reject", "%s.%s <- %r (out of range) from inside the change hook of %s: expected ControllerValueError and the old value %r, got err=%r value %r" % (h["type"], dname, dv, name, model[dname], err, getattr(mod, dname)), key="C09.history.hook:%s.%s" % (h["type"], dname))
            nontriv = True
            continue
        if mode == "repeat":
            v = prev
            in_range = c.kind not in ("range", "compact", "no_offset") or c.min <= v <= c.max
            mode = "in" if in_range else "above"
            labels.add("history_repeat_in_range" if in_range else "history_repeat_out_of_range_strict")
        try:
            setattr(mod, name, v)
        except Exception as e:  # noqa: BLE001
            err = e
        got = getattr(mod, name)
        if mode in ("in", "bool"):
            if err is not None or not same(got, v):
                raise PropertyViolation("C09.history.accept", "%s <- %r: err=%r reads %r" % (ent, v, err, got), key="C09.history.accept:" + ent)
            model[name] = v
            lenient_stored.discard(name)
        elif mode in ("enum_value", "enum_name"):
            vt = cls.controllers[name].value_type
            want = vt[v] if isinstance(v, str) else vt(v)
            if err is not None or got is not want:
                raise PropertyViolation("C09.history.accept", "%s <- %r: err=%r reads %r" % (ent, v, err, got), key="C09.history.accept:" + ent)
            model[name] = want
        elif mode in ("below", "above"):
            nontriv = True
            if not isinstance(err, ControllerValueError):
                raise PropertyViolation("C09.history.reject", "%s <- %r: expected ControllerValueError, got %r" % (ent, v, err), key="C09.history.reject:" + ent)
            if not same(got, prev):
                raise PropertyViolation("C09.history.prev_kept", "%s <- %r rejected, value went %r -> %r" % (ent, v, prev, got), key="C09.history.prev_kept:" + ent)
        else:
            nontriv = True
            if err is None:
                raise PropertyViolation("C09.history.enum_invalid", "%s <- %r: no exception, reads %r" % (ent, v, got), key="C09.history.enum_invalid:" + ent)
            if not same(got, prev):
                raise PropertyViolation("C09.history.prev_kept", "%s <- %r raised, value went %r -> %r" % (ent, v, prev, got), key="C09.history.prev_kept:" + ent)
        # invariant: every fixed-range controller within its declared range, others untouched
        for c2 in mt.controllers:
            if c2.kind == "dependent":
                continue
            g2 = getattr(mod, c2.name)
            if not same(g2, model[c2.name]):
                raise PropertyViolation("C09.history.other_changed", "%s.%s became %r (model %r) after assigning %s" % (h["type"], c2.name, g2, model[c2.name], name), key="C09.history.other_changed:%s.%s" % (h["type"], c2.name))
            if c2.kind in ("range", "compact", "no_offset") and c2.name not in lenient_stored and not (c2.min <= g2 <= c2.max):
                raise PropertyViolation("C09.history.invariant", "%s.%s=%r outside [%d,%d] in strict mode" % (h["type"], c2.name, g2, c2.min, c2.max), key="C09.history.invariant:%s.%s" % (h["type"], c2.name))
    ctx.label(*labels)
    return nontriv


def prelude(kind):
    """Use of the library before the assignments under test (strict mode must be unaffected)."""
    import glob
    import os
    from io import BytesIO

    from rv.api import Synth, m, read_sunvox_file
    from vlib.harness import REPO

    if kind == "none":
        return
    if kind == "load_ok":
        for f in sorted(glob.glob(os.path.join(REPO, "tests", "files", "*.sunsynth")))[:6]:
            read_sunvox_file(f)
        return
    if kind == "load_fails":
        for data in (b"SSYN\0\0\0\0VERS\4\0\0\0\1\2\1\2SFFF\4\0\0\0\0\0\0\0STYP\4\0\0\0Nop\0SEND\0\0\0\0", b"SVOX\0\0\0\0BPM \2\0\0\0\0\0"):
            try:
                read_sunvox_file(BytesIO(data))
            except Exception:  # noqa: BLE001
                pass
        try:
            read_sunvox_file("/nonexistent/file.sunvox")
        except Exception:  # noqa: BLE001
            pass
        return
    # a load that fails inside a nested load (embedded project cut short)
    mm = m.MetaModule()
    mm.project.new_module(m.Amplifier)
    data = Synth(mm).read()
    for cut in (len(data) // 2, len(data) - 40, 200):
        try:
            read_sunvox_file(BytesIO(data[:cut] + b"STYP\4\0\0\0Bad\0"))
        except Exception:  # noqa: BLE001
            pass


def define_user_subclasses(stock):
    """A program derives its own module classes from the stock ones: redefining a controller with another
    range and default, adding a controller, adding nothing.  (Only the stock classes are looked at
    afterwards; this runs in a process of its own because deriving a class re-registers its type name.)"""
    from rv.controller import Controller

    made = []
    for cls in stock:
        names = list(cls.controllers)
        body = {}
        if names:
            first = cls.controllers[names[0]]
            if hasattr(first.value_type, "max"):
                body[names[0]] = Controller((0, 4096), 512)
            body[names[-1] + "_extra"] = Controller((0, 10), 5)
        made.append(type("Plain" + cls.__name__, (cls,), {}))
        made.append(type("My" + cls.__name__, (cls,), dict(body)))
    return made


def run_shard(ctx, desc):
    if desc["kind"] == "enum" and desc.get("prelude") == "user_subclasses":
        stock = [classes()[specmodel.load()[t].mtype] for t in desc["types"]]
        define_user_subclasses(stock)
        ctx.label("prelude_user_subclasses")
        for t, cls in zip(desc["types"], stock):
            enum_type(ctx, t, cls_override=cls)
        return
    if desc["kind"] == "enum":
        prelude(desc.get("prelude", "none"))
        ctx.label("prelude_" + desc.get("prelude", "none"))
        for t in desc["types"]:
            enum_type(ctx, t)
        # the same rules hold in a thread other than the one that imported the library
        import threading

        box = []

        def in_thread():
            try:
                for t in desc["types"][:2]:
                    enum_type(ctx, t)
            except BaseException as e:  # noqa: BLE001 - handed to the main thread
                box.append(e)

        th = threading.Thread(target=in_thread)
        th.start()
        th.join()
        if box:
            raise box[0]
        ctx.label("in_worker_thread")
        return

    def body(h):
        ctx.case()
        nt = run_history(ctx, h)
        ctx.label("history")
        if nt:
            ctx.mark_nontrivial(h)
        ctx.sample(h)

    run_property(ctx, history(), body, desc["examples"], tag="history")


def replay(ctx, doc):
    r = doc["recipe"]
    if "case" in r:
        run_history(ctx, r["case"])
        return
    from vlib.harness import Ctx

    c2 = Ctx(ctx.prop, ctx.tier, ctx.seed, 0, 1, [])
    enum_type(c2, r["type"])
    for f in c2.failures:
        if f["recipe"].get("ctl") == r.get("ctl") and f["recipe"].get("op") == r.get("op"):
            raise PropertyViolation(f["sub_oracle"], f["detail"], f["key"])
