"""C19 - bulk pattern edits are all-or-nothing and notes stay owned by their pattern."""

from __future__ import annotations

import struct

from hypothesis import strategies as st

from vlib import strategies as vs
from vlib.harness import PropertyViolation, run_property

PROPERTY_ID = "C19"
LEVEL = "fault_enumeration"
RULE = (
    "Hypothesis generates (shape, attached? (to a project holding 0-4 modules of mixed types that may have been saved before and between the edits), initial cells (none: the pattern is never read before the first edit - expected contents come from a model, not from the pattern), history of 1..4 bulk edits through set_via_fn / set_via_gen with generated notes (fresh ones, or the pattern's own notes moved to other cells: rotation / swaps), "
    "generated yield subsets and orders, optional scribbling on the scratch array); for the last edit of every history the failure position is "
    "enumerated completely (callable raises - an exception type drawn from a list that includes StopIteration and a BaseException subclass - at call index f for every f in 0..cells; generator raises after yield j for every j in 0..yields) "
    "when the pattern has <= 256 cells (otherwise ends, middle and a stride). distinct = (history, failure position); histories may also fail half-way at generated points before continuing on the same object, and every enumerated failure of the last edit is followed by a further successful edit; non-trivial = failure at "
    "an interior position after >= 1 successful write, or a second edit on top of a first"
    ' Also (added while the seeded-change rounds of DESIGN section 9 ran): Notes may be copied from another pattern (clone / deepcopy); generator-style and plain-function callables (the latter may fail before supplying anything); scribbles also walk the scratch array.'
)
RULE += " Rounds 12-14 of DESIGN section 9 added: notes supplied by the callable and found installed belonged to the pattern when the edit returned (before it was read); notes still sitting in another pattern as a source; patterns of projects written as older-version files and loaded; module numbers that need more than 8 bits."
ASSUMPTIONS = [
    "the supplied callable returns a fresh Note for every cell (as the docstring expects); notes owned by other patterns are not supplied",
    "after a failed edit the contents (cell tuples, raw_data) are claimed unchanged; identity of the internal list is not claimed",
]
REQUIRED_LABELS = {
    "quick": ["fn_success", "gen_success", "fn_fail_interior", "gen_fail_interior", "attached", "detached", "second_edit", "scribble", "failure_mid_history", "follow_up_after_failure", "project_saved_before_edit", "moved_existing_notes", "exc_StopIteration", "exc_BoomBase", "first_edit_on_never_read_pattern", "notes_copied_from_another_pattern", "callable_fails_before_supplying_anything"],
    "thorough": ["fn_success", "gen_success", "fn_fail_interior", "gen_fail_interior", "attached", "detached", "second_edit", "scribble"],
}

NOTECMDS = list(range(0, 121)) + [128, 129, 130, 131, 132, 133, 134, 140]


def exhaustive(tier):
    return False


def plan(tier):
    n, per = (16, 40) if tier == "quick" else (16, 600)
    return [{"kind": "random", "examples": per, "max_tracks": 8 if tier == "quick" else 32, "max_lines": 16 if tier == "quick" else 64} for _ in range(n)]


u16 = vs.edge_int(0, 0xFFFF)
# module numbers: mostly the few that resolve to a module of the small project, sometimes numbers that need more than 8 bits
_modnum = st.one_of(st.integers(0, 6), st.integers(0, 6), st.integers(0, 6), st.sampled_from([255, 256, 257, 300, 0x1234, 0xFF01, 0xFFFF]))
_full_cell = st.tuples(st.sampled_from(NOTECMDS), vs.edge_int(0, 129), _modnum, u16, u16).map(list)
# tracker-style cells with exactly one column set (only a module number, only a velocity, ...) are as common as full ones
_one_column = st.one_of(
    st.integers(1, 6).map(lambda m_: [0, 0, m_, 0, 0]),
    st.integers(1, 129).map(lambda v_: [0, v_, 0, 0, 0]),
    st.sampled_from(NOTECMDS).map(lambda n_: [n_, 0, 0, 0, 0]),
    u16.map(lambda c_: [0, 0, 0, c_, 0]),
    u16.map(lambda x_: [0, 0, 0, 0, x_]),
)
cell = st.one_of(_full_cell, _full_cell, _one_column)


@st.composite
def case_strategy(draw, max_tracks, max_lines):
    tracks = draw(vs.edge_int(1, max_tracks))
    lines = draw(vs.edge_int(1, max_lines))
    ncells = tracks * lines
    initial = draw(st.lists(st.tuples(st.integers(0, ncells - 1), cell).map(list), max_size=6))
    edits = []
    for _ in range(draw(st.integers(1, 4))):
        kind = draw(st.sampled_from(["fn", "gen", "fn_rotate", "gen_swap"]))
        if kind == "fn_rotate":
            # the callable returns the note objects that already live in the pattern, rotated by k cells
            edits.append({"kind": "fn_rotate", "shift": draw(st.integers(1, max(1, ncells - 1))), "fail_at": None})
        elif kind == "gen_swap":
            pairs = draw(st.lists(st.tuples(st.integers(0, ncells - 1), st.integers(0, ncells - 1)).map(list), min_size=1, max_size=3, unique_by=lambda p: frozenset(p)))
            used, clean = set(), []
            for a, b in pairs:
                if a != b and a not in used and b not in used:
                    clean.append([a, b])
                    used.update((a, b))
            edits.append({"kind": "gen_swap", "pairs": clean, "fail_at": None})
        elif kind == "fn":
            # a small palette of cells cycled over the pattern keeps cases small and shrinkable
            palette = draw(st.lists(cell, min_size=1, max_size=5))
            edits.append({"kind": "fn", "palette": palette, "offset": draw(st.integers(0, 7)), "fail_at": draw(st.one_of(st.none(), st.none(), st.integers(0, ncells - 1))), "exc": draw(st.sampled_from(sorted(EXC_TYPES))), "source": draw(st.sampled_from(NOTE_SOURCES))})
        else:
            k = draw(st.integers(0, min(ncells, 12)))
            idxs = draw(st.lists(st.integers(0, ncells - 1), min_size=k, max_size=k))
            cells = draw(st.lists(cell, min_size=k, max_size=k))
            edits.append({"kind": "gen", "yields": [[i, c] for i, c in zip(idxs, cells)], "scribble": draw(st.booleans()), "fail_at": draw(st.one_of(st.none(), st.none(), st.integers(0, k))), "exc": draw(st.sampled_from(sorted(EXC_TYPES))), "source": draw(st.sampled_from(NOTE_SOURCES)), "style": draw(st.sampled_from(["generator", "generator", "plain_function"]))})
    kf = draw(st.integers(0, min(ncells, 4)))
    follow = {"kind": "gen", "yields": [[draw(st.integers(0, ncells - 1)), draw(cell)] for _ in range(kf)], "scribble": False, "fail_at": None}
    return {
        "tracks": tracks,
        "lines": lines,
        "attached": draw(st.booleans()),
        "modules": draw(st.integers(0, 4)),
        "module_types": draw(st.lists(st.sampled_from(["Amplifier", "MultiSynth", "MultiCtl", "WaveShaper", "SpectraVoice", "Fmx", "MetaModule", "Sampler", "Generator"]), min_size=4, max_size=4)),
        "save_first": draw(st.booleans()),
        # the project (with the pattern in it) was written as a file of this SunVox version and loaded again: the bulk
        # edits are made on the loaded pattern
        "loaded_version": draw(st.sampled_from([None, None, None, [1, 9, 4, 2], [1, 7, 0, 0], [2, 0, 0, 0]])),
        "initial": initial,
        "edits": edits,
        "follow_up": follow,
    }


class Boom(Exception):
    pass


class BoomBase(BaseException):
    """Not an Exception subclass (like KeyboardInterrupt / GeneratorExit)."""


# what the supplied callable may fail with: the pattern must be untouched whatever it is
EXC_TYPES = {"Boom": Boom, "StopIteration": StopIteration, "ValueError": ValueError, "IndexError": IndexError, "KeyError": KeyError, "AttributeError": AttributeError, "RuntimeError": RuntimeError, "BoomBase": BoomBase}


def make_exc(name, arg):
    return EXC_TYPES.get(name or "Boom", Boom)(arg)


def mk_note(c):
    from rv.api import NOTECMD, Note

    return Note(note=NOTECMD(c[0]), vel=c[1], module=c[2], ctl=c[3], val=c[4])


def supplied_note(c, source):
    """The note a callable hands over for cell content c: a fresh Note, or a copy taken from a
    cell of another pattern (clone() / copy.deepcopy - the usual ways of copying between patterns);
    that other pattern may itself sit in another project."""
    n = _supplied_note(c, source)
    _SUPPLIED.append(n)
    return n


def _supplied_note(c, source):
    if not source or source == "fresh":
        return mk_note(c)
    if source == "shared":
        # one Note object per distinct content, handed over for every cell that holds that content
        # (a "rest" or "kick" object re-used across the pattern)
        key = tuple(c)
        if key not in _SHARED:
            _SHARED[key] = mk_note(c)
        return _SHARED[key]
    import copy

    from rv.api import NOTECMD, Pattern, Project

    other = Pattern(tracks=1, lines=1)
    if source.endswith("_attached"):
        Project().attach_pattern(other)
    n = other.data[0][0]
    n.note, n.vel, n.module, n.ctl, n.val = NOTECMD(c[0]), c[1], c[2], c[3], c[4]
    if source.startswith("live"):
        # the note itself, still sitting in the other pattern (the callable "copies" cells over without cloning)
        _KEEP.append(other)
        return n
    return n.clone() if source.startswith("clone") else copy.deepcopy(n)


NOTE_SOURCES = ["fresh", "fresh", "clone_of_foreign", "clone_of_foreign_attached", "deepcopy_of_foreign", "deepcopy_of_foreign_attached", "shared", "live_foreign", "live_foreign_attached"]
_KEEP = []
_SHARED = {}
_SUPPLIED = []


def check_supplied_belong(pattern, where):
    """The callable may have kept the notes it handed over.  Those of them that the completed edit installed
    (found in the pattern by identity afterwards) belonged to the pattern from the moment the edit returned -
    also before anyone looked at the pattern again."""
    pre = {id(n): n.pattern for n in _SUPPLIED}
    if not pre:
        return
    for ln, line in enumerate(pattern.data):
        for tr, n in enumerate(line):
            if id(n) in pre and pre[id(n)] is not pattern:
                raise PropertyViolation(
                    "C19.ownership.before_first_read",
                    "%s: the supplied note installed at (line %d, track %d) had pattern %s when the edit returned (before the pattern was read again)"
                    % (where, ln, tr, "None" if pre[id(n)] is None else "another object"),
                )


def cells_of(pattern):
    return [[int(n.note), n.vel, n.module, n.ctl, n.val] for line in pattern.data for n in line]


def apply_edit(pattern, edit, fail_at, before=None):
    _SHARED.clear()
    del _SUPPLIED[:]
    del _KEEP[:]
    out = _apply_edit(pattern, edit, fail_at, before)
    # reached only when the edit completed
    check_supplied_belong(pattern, "after %s" % edit["kind"])
    del _SUPPLIED[:]
    return out


def _apply_edit(pattern, edit, fail_at, before=None):
    """Run one bulk edit.  fail_at None = let it complete.  Returns expected cells on success.
    before: what the pattern holds according to the model (so that nothing has to be read from
    the pattern before the edit; a pattern that was never looked at is a legitimate receiver)."""
    tracks, lines = pattern.tracks, pattern.lines
    if before is None:
        before = cells_of(pattern)
    if edit["kind"] == "fn_rotate":
        n = tracks * lines
        k = edit["shift"] % n
        flat = [pattern.data[i // tracks][i % tracks] for i in range(n)]
        pattern.set_via_fn(lambda p, line, track: flat[(line * tracks + track + k) % n])
        return [before[(i + k) % n] for i in range(n)]
    if edit["kind"] == "gen_swap":
        def swap_gen(p, new):
            for a, b in edit["pairs"]:
                na, nb = p.data[a // tracks][a % tracks], p.data[b // tracks][b % tracks]
                yield a // tracks, a % tracks, nb
                yield b // tracks, b % tracks, na

        pattern.set_via_gen(swap_gen)
        exp = list(before)
        for a, b in edit["pairs"]:
            exp[a], exp[b] = before[b], before[a]
        return exp
    if edit["kind"] == "fn":
        pal = edit["palette"]
        off = edit["offset"]
        calls = {"n": 0}

        def fn(p, line, track):
            i = calls["n"]
            calls["n"] += 1
            if fail_at is not None and i == fail_at:
                raise make_exc(edit.get("exc"), i)
            return supplied_note(pal[(line * tracks + track + off) % len(pal)], edit.get("source"))

        expected = [pal[(k + off) % len(pal)] for k in range(tracks * lines)]
        pattern.set_via_fn(fn)
        return expected
    yields = edit["yields"]

    def gen(p, new):
        for j, (idx, c) in enumerate(yields):
            if fail_at is not None and j == fail_at:
                if edit["scribble"]:
                    new[0][0] = mk_note([1, 1, 1, 1, 1])
                    new[-1][-1].vel = 99
                    if j % 2:
                        # the scratch array is also walked, not only indexed
                        for line_ in new:
                            for note_ in line_:
                                note_.ctl = 0x0707
                        for note_ in list(reversed(new))[0]:
                            note_.val = 0x0101
                raise make_exc(edit.get("exc"), j)
            yield idx // tracks, idx % tracks, supplied_note(c, edit.get("source"))
        if fail_at is not None and fail_at >= len(yields):
            if edit["scribble"]:
                new[0][0].ctl = 0xBEEF
            raise Boom(fail_at)

    expected = list(before)
    for idx, c in yields:
        expected[idx] = c
    style = edit.get("style") or "generator"
    if style == "plain_function":
        # not a generator function: an ordinary callable that checks its arguments first (and may fail
        # right there, before any cell is supplied) and then returns the cells as a list
        def plain(p, new):
            if fail_at is not None and fail_at == 0:
                raise make_exc(edit.get("exc"), 0)
            return list(gen(p, new))

        pattern.set_via_gen(plain)
    else:
        pattern.set_via_gen(gen)
    return expected


def check_ownership(pattern, project, where):
    for ln, line in enumerate(pattern.data):
        for tr, n in enumerate(line):
            if n.pattern is not pattern:
                raise PropertyViolation("C19.ownership.pattern", "%s: note at (line %d, track %d) has pattern %s" % (where, ln, tr, "None" if n.pattern is None else "another object"))
            if project is not None:
                try:
                    if n.project is not project:
                        raise PropertyViolation("C19.ownership.project", "%s: note at (%d,%d).project is not the owning project" % (where, ln, tr))
                    mod = n.mod
                except PropertyViolation:
                    raise
                except Exception as e:  # noqa: BLE001
                    raise PropertyViolation("C19.ownership.mod_resolves", "%s: note at (%d,%d).mod raised %r" % (where, ln, tr, e))
                mi = n.module - 1
                want = project.modules[mi] if 0 <= mi < len(project.modules) else None
                if mod is not want:
                    raise PropertyViolation("C19.ownership.mod_value", "%s: note.module=%d resolves to %r, expected %r" % (where, n.module, mod, want))


def build(case):
    from rv.api import NOTECMD, Pattern, Project, m

    pattern = Pattern(tracks=case["tracks"], lines=case["lines"])
    project = None
    if case["attached"]:
        project = Project()
        types = case.get("module_types") or ["Amplifier"] * 4
        for i in range(case["modules"]):
            project.new_module(getattr(m, types[i % len(types)]))
        project.attach_pattern(pattern)
    for idx, c in case["initial"]:
        n = pattern.data[idx // case["tracks"]][idx % case["tracks"]]
        n.note, n.vel, n.module, n.ctl, n.val = NOTECMD(c[0]), c[1], c[2], c[3], c[4]
    if project is not None and case.get("save_first"):
        project.read()  # the project has been saved (and will be saved again) around the bulk edits
    if project is not None and case.get("loaded_version"):
        from io import BytesIO

        from rv.api import read_sunvox_file

        project.sunvox_version = tuple(case["loaded_version"])
        project = read_sunvox_file(BytesIO(project.read()))
        pattern = project.patterns[0]
    return pattern, project


def initial_model(case):
    cells = [[0, 0, 0, 0, 0] for _ in range(case["tracks"] * case["lines"])]
    for idx, c in case["initial"]:
        cells[idx] = list(c)
    if case["attached"] and case.get("loaded_version") and tuple(case["loaded_version"]) < (1, 9, 5, 0):
        # files older than 1.9.5 hold 8-bit module numbers in their cells: that is what loading such a file gives
        for c in cells:
            c[2] &= 0xFF
    return cells


def positions(n_total, complete):
    if complete or n_total <= 40:
        return list(range(n_total))
    s = {0, 1, 2, n_total - 1, n_total - 2, n_total // 2}
    s.update(range(0, n_total, max(1, n_total // 24)))
    return sorted(x for x in s if 0 <= x < n_total)


def run_case(ctx, case, only_fail_at=None):
    labels = set()
    ncells = case["tracks"] * case["lines"]
    labels.add("attached" if case["attached"] else "detached")
    if case["attached"] and case.get("save_first"):
        labels.add("project_saved_before_edit")
    edits = case["edits"]
    last = edits[-1]
    # failure positions for the last edit: complete when the pattern is small
    if last["kind"] in ("fn_rotate", "gen_swap"):
        # moves have no injected failure; run them as a completed last edit
        pattern, project = build(case)
        for e in edits:
            prev = cells_of(pattern)
            try:
                exp = apply_edit(pattern, e, e.get("fail_at"))
            except (Exception, BoomBase):
                if e.get("fail_at") is None:
                    raise
                exp = prev
            if cells_of(pattern) != exp:
                raise PropertyViolation("C19.success.contents", "edit %s: cells differ from what was supplied" % e["kind"])
            check_ownership(pattern, project, "after %s" % e["kind"])
        labels.add("moved_existing_notes")
        ctx.case()
        return labels, ["move"]
    n_pos = ncells if last["kind"] == "fn" else len(last["yields"]) + 1
    pos_list = positions(n_pos, ncells <= 256) if only_fail_at is None else [only_fail_at]
    runs = [None] + pos_list if only_fail_at is None else pos_list
    nontrivial_keys = []
    for fail_at in runs:
        pattern, project = build(case)
        model = initial_model(case)
        if not case["initial"] and not (case["attached"] and case.get("save_first")):
            labels.add("first_edit_on_never_read_pattern")
        # earlier edits run on the same object; some of them fail half-way (then nothing may change)
        for ei, e in enumerate(edits[:-1]):
            prev_cells = model
            fa = e.get("fail_at")
            try:
                exp = apply_edit(pattern, e, fa, before=model)
                failed = False
            except (Exception, BoomBase):
                if fa is None:
                    raise
                failed = True
                exp = prev_cells
                labels.add("failure_mid_history")
            if fa is not None and not failed and not (e["kind"] == "fn" and fa >= ncells):
                raise PropertyViolation("C19.failure.propagates", "edit %d (%s): exception injected at %d did not propagate" % (ei, e["kind"], fa))
            got = cells_of(pattern)
            if got != exp:
                bad = next(i for i, (a, b) in enumerate(zip(got, exp)) if a != b)
                raise PropertyViolation(
                    "C19.failure.unchanged" if failed else "C19.success.contents",
                    "edit %d (%s, %s): cell %d is %r, expected %r" % (ei, e["kind"], "failed at %r" % fa if failed else "completed", bad, got[bad], exp[bad]),
                )
            model = exp
            check_ownership(pattern, project, "after edit %d (%s)" % (ei, e["kind"]))
            labels.add("second_edit")
            if e["kind"] in ("fn_rotate", "gen_swap"):
                labels.add("moved_existing_notes")
            if project is not None and case.get("save_first") and ei % 2 == 0:
                project.read()
        before_cells = model
        before_raw = b"".join(struct.pack("<BBHHH", *c) for c in model)
        if fail_at is None:
            exp = apply_edit(pattern, last, None, before=model)
            got = cells_of(pattern)
            if got != exp:
                bad = next(i for i, (a, b) in enumerate(zip(got, exp)) if a != b)
                raise PropertyViolation("C19.success.contents", "last edit (%s): cell %d is %r, expected %r" % (last["kind"], bad, got[bad], exp[bad]))
            check_ownership(pattern, project, "after last edit (%s)" % last["kind"])
            labels.add(last["kind"] + "_success")
            if (last.get("source") or "fresh") != "fresh":
                labels.add("notes_copied_from_another_pattern")
            if len(edits) > 1:
                nontrivial_keys.append("success")
        else:
            raised = None
            try:
                apply_edit(pattern, last, fail_at, before=model)
            except (Exception, BoomBase) as b:
                raised = b
                labels.add("exc_" + (last.get("exc") or "Boom"))
            if last.get("style") == "plain_function" and fail_at == 0:
                labels.add("callable_fails_before_supplying_anything")
            if raised is None:
                raise PropertyViolation("C19.failure.propagates", "%s: exception injected at position %d did not propagate" % (last["kind"], fail_at))
            if cells_of(pattern) != before_cells or pattern.raw_data != before_raw:
                raise PropertyViolation("C19.failure.unchanged", "%s failed at position %d of %d but the pattern contents changed" % (last["kind"], fail_at, n_pos))
            check_ownership(pattern, project, "after failed edit")
            fu = case.get("follow_up")
            if fu is not None:
                exp2 = apply_edit(pattern, fu, None)
                got2 = cells_of(pattern)
                if got2 != exp2:
                    bad = next(i for i, (a, b) in enumerate(zip(got2, exp2)) if a != b)
                    raise PropertyViolation("C19.failure.later_edit_sees_original", "%s failed at %d; a later successful set_via_gen left cell %d = %r, expected %r (the failed edit's writes resurfaced)" % (last["kind"], fail_at, bad, got2[bad], exp2[bad]))
                check_ownership(pattern, project, "after follow-up edit")
                labels.add("follow_up_after_failure")
            if 0 < fail_at:
                labels.add(last["kind"] + "_fail_interior")
                nontrivial_keys.append(fail_at)
            if last["kind"] == "gen" and last["scribble"]:
                labels.add("scribble")
        ctx.case()
    return labels, nontrivial_keys


def run_shard(ctx, desc):
    def body(case):
        labels, keys = run_case(ctx, case)
        ctx.label(*labels)
        for k in keys:
            ctx.mark_nontrivial([case, k])
        ctx.sample({"tracks": case["tracks"], "lines": case["lines"], "attached": case["attached"], "edits": [e["kind"] for e in case["edits"]], "failure_positions": len(keys)})

    run_property(ctx, case_strategy(desc["max_tracks"], desc["max_lines"]), body, desc["examples"], tag="bulk")


def replay(ctx, doc):
    r = doc["recipe"]
    run_case(ctx, r["case"])
