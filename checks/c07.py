"""C07 - connecting and disconnecting keep the link tables mutually consistent."""

from __future__ import annotations

from hypothesis import strategies as st

from vlib import linkmodel as lm
from vlib.harness import PropertyViolation, as_violation, run_property

PROPERTY_ID = "C07"
LEVEL = "exploration"
RULE = (
    "(a) complete enumeration of single-pair connect/disconnect histories: 3 nodes (Output + 2), 18 ops, all sequences of length <= 3 "
    "(quick) / <= 6 (thorough, 36 M histories); 4 nodes, 32 ops, length <= 3 (thorough; <= 2 quick); (b) every two-op history over 4 nodes whose second op "
    "is a list op over any non-empty operand subset (overlap case), both orientations, connect and disconnect; (c) Hypothesis: random "
    "operation lists over up to 8 (quick) / 16 (thorough) modules using every spelling (>>, <<, ~, lists, ModuleList chaining, "
    "project.connect with mixed ~ operands, cross-project operands alone and mixed with own modules in one refused request, link operations inside the other project, save() and new_module in between). Oracle: reference model = set of ordered "
    "pairs; after every step pairs(in-tables) == pairs(out-tables) == model, no duplicates, slot-by-slot mutual consistency. "
    "non-trivial = history with a reconnect after a disconnect, a list op overlapping an existing link, or a freed slot in the middle"
    ' Also (added while the seeded-change rounds of DESIGN section 9 ran): Also: refused requests that mix own and foreign modules, one operand list reused for several requests, projects with 254-300 filler modules (positions above 255), fan-outs of 17 / 40 / 256+ links (from a MultiCtl every other time), every attachable module type as a link end, save() steps, and a shard in which the caller dropped the project object and kept only the modules.'
)
RULE += " Rounds 12-14 of DESIGN section 9 added: one link requested and withdrawn 300 (700) times next to links that stay, invariants after every request; mixed cross-project requests through ModuleList objects and `x >> [] >> [...]` chains."
ASSUMPTIONS = [
    "~a >> x and a plain list as the left operand of >> / << are not supported spellings and are not generated",
    "for a refused cross-project operation only: error class, no foreign pair recorded, tables consistent and unchanged for pairs not named by the op",
]
# classes of cases that are produced deterministically: their absence is a harness error (see vlib.harness)
HARD_LABELS = ['project_object_dropped_by_caller']
REQUIRED_LABELS = {
    "quick": ["reconnect_after_disconnect", "list_overlap", "freed_slot_middle", "cross_project", "self_loop", "mixed_disconnect_list", "other_project_linked", "save_midway", "cross_project_mixed_request", "mixed_request_with_noop_pair", "modules_at_positions_above_256", "operand_list_with_disconnects_reused", "project_object_dropped_by_caller", "fan_out_of_more_than_16", "fan_out_of_more_than_255"],
    "thorough": ["reconnect_after_disconnect", "list_overlap", "freed_slot_middle", "cross_project", "self_loop", "mixed_disconnect_list"],
}


def exhaustive(tier):
    return False


def plan(tier):
    descs = []
    # (a) DFS split by first op
    depth3 = 3 if tier == "quick" else 6
    for first in range(18):
        descs.append({"kind": "dfs", "nodes": 3, "depth": depth3, "first": first})
    depth4 = 2 if tier == "quick" else 3
    for first in range(0, 32, 4):
        descs.append({"kind": "dfs", "nodes": 4, "depth": depth4, "first_range": [first, first + 4]})
    descs.append({"kind": "overlap"})
    n, per = (16, 60) if tier == "quick" else (16, 600)
    for i in range(n):
        descs.append({"kind": "random", "examples": per, "max_modules": 8 if tier == "quick" else 16, "max_ops": 30 if tier == "quick" else 50})
    descs.append({"kind": "lifetime"})
    # one link switched on and off very many times (more freed slots than fit a byte) next to links that stay
    for i in range(3):
        descs.append({"kind": "churn", "variant": i})
    for i in range(2 if tier == "quick" else 8):
        descs.append({"kind": "random", "big": True, "wide": i % 2 == 1, "examples": 25 if tier == "quick" else 150, "max_modules": 8, "max_ops": 20})
    return descs


# --- (a) exhaustive DFS ---------------------------------------------------------------------


def single_ops(nodes):
    ops = []
    for a in range(nodes):
        for b in range(nodes):
            ops.append((a, b, False))
            ops.append((a, b, True))
    return ops


def apply_single(world, a, b, dis, spelling):
    M = world.mod
    if not dis:
        if spelling == 0:
            M(a) >> M(b)
        elif spelling == 1:
            M(b) << M(a)
        else:
            world.project.connect(M(a), M(b))
    else:
        if spelling == 0:
            M(a) >> ~M(b)
        elif spelling == 1:
            M(b) << ~M(a)
        else:
            world.project.connect(~M(a), M(b))


def restore(project, snap):
    for m, t in zip(project.modules, snap):
        m.in_links[:] = t[0]
        m.in_link_slots[:] = t[1]
        m.out_links[:] = t[2]
        m.out_link_slots[:] = t[3]


def run_dfs(ctx, nodes, depth, firsts):
    world = lm.World(n_initial=nodes - 1, types=["Amplifier", "Generator", "MultiCtl"])
    ops = single_ops(nodes)
    count = 0
    nontriv = 0
    stats = {"max_tables": 0}

    def rec(E, history, d, ever_disconnected):
        nonlocal count, nontriv
        snap = lm.tables(world.project)
        for oi, (a, b, dis) in enumerate(ops):
            if d == 0 and oi not in firsts:
                continue
            E2 = set(E)
            if dis:
                E2.discard((a, b))
            else:
                E2.add((a, b))
            h2 = history + [[a, b, int(dis)]]
            spelling = (oi + d) % 3
            count += 1
            try:
                apply_single(world, a, b, dis, spelling)
                lm.check_consistency(world.project, E2)
            except PropertyViolation as v:
                ctx.check(False, v.sub_oracle, v.detail, key=v.sub_oracle, recipe={"op": "dfs", "nodes": nodes, "history": h2, "spellings": "(op index + depth) % 3"})
                restore(world.project, snap)
                continue
            except Exception as e:  # noqa: BLE001
                v = as_violation(e, "C07", "dfs")
                if v is None:
                    raise
                ctx.check(False, v.sub_oracle, v.detail, key=v.sub_oracle, recipe={"op": "dfs", "nodes": nodes, "history": h2})
                restore(world.project, snap)
                continue
            nt = (not dis and (a, b) in ever_disconnected) or any(-1 in t[0][:-1] for t in lm.tables(world.project) if t and t[0])
            if nt:
                nontriv += 1
            if d + 1 < depth:
                rec(E2, h2, d + 1, ever_disconnected | ({(a, b)} if dis and (a, b) in E else set()))
            restore(world.project, snap)

    rec(set(), [], 0, frozenset())
    ctx.case(count)
    ctx.mark_nontrivial_count("dfs%d_d%d_%s" % (nodes, depth, firsts[0]), nontriv)
    ctx.label("dfs_%dnodes" % nodes)
    ctx.sample({"op": "dfs", "nodes": nodes, "depth": depth, "first_ops": [list(ops[i]) for i in firsts], "histories": count})


# --- (b) overlap histories -------------------------------------------------------------------


def subsets(items):
    n = len(items)
    for mask in range(1, 1 << n):
        yield [items[i] for i in range(n) if mask >> i & 1]


def run_overlap(ctx):
    nodes = 4
    ops = single_ops(nodes)
    count = 0
    for a0, b0, dis0 in ops:
        for c in range(nodes):
            for sub in subsets(list(range(nodes))):
                for orient in ("from", "to"):
                    for dis in (False, True):
                        for spelling in ("op", "connect"):
                            if spelling == "op" and dis and len(sub) > 1:
                                # a >> [~b, ~c] is spelled through project.connect
                                continue
                            world = lm.World(n_initial=nodes - 1, types=["Amplifier"])
                            E = set()
                            hist = [[a0, b0, int(dis0)]]
                            # pre-connect so disconnects have something to remove
                            pre = []
                            if dis or dis0:
                                for x in sub:
                                    pr = (c, x) if orient == "from" else (x, c)
                                    if (x + c) % 2 == 0:
                                        pre.append(pr)
                                if dis0:
                                    pre.append((a0, b0))
                            try:
                                for f, t in pre:
                                    world.project.connect(world.mod(f), world.mod(t))
                                    E.add((f, t))
                                apply_single(world, a0, b0, dis0, 2)
                                (E.discard if dis0 else E.add)((a0, b0))
                                lm.check_consistency(world.project, E)
                                if spelling == "op":
                                    if orient == "from":
                                        if dis:
                                            world.mod(c) >> ~world.mod(sub[0])
                                        else:
                                            world.mod(c) >> [world.mod(x) for x in sub]
                                    else:
                                        if dis:
                                            world.mod(c) << ~world.mod(sub[0])
                                        else:
                                            world.mod(c) << [world.mod(x) for x in sub]
                                else:
                                    lst = [(~world.mod(x) if dis else world.mod(x)) for x in sub]
                                    if orient == "from":
                                        world.project.connect(world.mod(c), lst)
                                    else:
                                        world.project.connect(lst, world.mod(c))
                                for x in sub:
                                    pr = (c, x) if orient == "from" else (x, c)
                                    (E.discard if dis else E.add)(pr)
                                count += 1
                                lm.check_consistency(world.project, E)
                                overlap = any(((c, x) if orient == "from" else (x, c)) in ([(a0, b0)] if not dis0 else []) + pre for x in sub)
                                if overlap:
                                    ctx.label("list_overlap")
                                    ctx.mark_nontrivial(["overlap", pre, a0, b0, dis0, c, sub, orient, dis, spelling])
                            except PropertyViolation as v:
                                ctx.check(False, v.sub_oracle, v.detail, key=v.sub_oracle, recipe={"op": "overlap", "pre": pre, "first": [a0, b0, int(dis0)], "second": {"module": c, "list": sub, "orient": orient, "disconnect": dis, "spelling": spelling}})
                            except Exception as e:  # noqa: BLE001
                                v = as_violation(e, "C07", "overlap")
                                if v is None:
                                    raise
                                ctx.check(False, v.sub_oracle, v.detail, key=v.sub_oracle, recipe={"op": "overlap", "pre": pre, "first": [a0, b0, int(dis0)], "second": {"module": c, "list": sub, "orient": orient, "disconnect": dis, "spelling": spelling}})
    ctx.case(count)
    ctx.sample({"op": "overlap", "nodes": nodes, "histories": count})


# --- (c) random op lists ----------------------------------------------------------------------


@st.composite
def op_list(draw, max_modules=8, max_ops=30, with_save_load=False, big=False, wide=False):
    n0 = draw(st.integers(1, min(4, max_modules)))
    types = [draw(st.sampled_from(lm.LINK_TYPES)) for _ in range(n0)]
    n = n0 + 1  # + output
    # big projects: `base` filler modules come first, so that the modules taking part in the history
    # sit at positions just below / at / above 256 and 65536 is not needed to see 16-bit issues
    base = draw(st.sampled_from([256, 257, 300] if wide else [254, 256, 257, 300])) if big else 0
    valid = [0] + list(range(base + 1, base + n0 + 1))
    ops = []
    k = draw(st.integers(1, max_ops))
    kinds = ["rshift", "lshift", "rshift_dis", "lshift_dis", "rshift_list", "lshift_list", "chain_r", "chain_l", "mlist_r_dis", "mlist_r_list", "mlist_l_list", "chain_r_list", "chain_l_list", "connect", "connect_single", "x", "x", "xmix", "xmix", "xlink", "new", "reuse", "reuse", "xsame"]
    weights = kinds + ["rshift", "lshift", "rshift_dis", "lshift_dis", "connect", "connect", "rshift_list"]
    weights = weights + ["save", "save"]  # a user saves whenever they like; it must not disturb the tables
    if with_save_load:
        weights = weights + ["save_load", "save_load", "save_load", "save"]
    idx = lambda: draw(st.sampled_from(valid))  # noqa: E731
    idxs = lambda lo=1, hi=4: draw(st.lists(st.sampled_from(valid), min_size=lo, max_size=min(hi, len(valid)), unique=True))  # noqa: E731
    if big and (wide or draw(st.booleans())):
        # a fan-out of 17 / 40 / more than 255 links (the source is a MultiCtl every other time: it has
        # a 16-row mapping table of its own), with slots freed in its middle and re-used afterwards
        src = valid[1]
        if draw(st.booleans()):
            types[0] = "MultiCtl"
        width = base if wide else draw(st.sampled_from([17, 40, base, base]))
        ops.append(["fanout", src, 1, min(base, width) + 1])
        for _ in range(draw(st.integers(1, 3))):
            ops.append(["rshift_dis", src, draw(st.integers(2, min(base, width) - 1))])
        ops.append(["rshift", src, 0])
        ops.append(["rshift", src, valid[-1]])
    for _ in range(k):
        kind = draw(st.sampled_from(weights))
        if kind == "new":
            if n - 1 >= max_modules:
                continue
            ops.append(["new", draw(st.sampled_from(lm.LINK_TYPES))])
            valid.append(base + n)
            n += 1
        elif kind in ("rshift", "lshift", "rshift_dis", "lshift_dis"):
            ops.append([kind, idx(), idx()])
        elif kind in ("rshift_list", "lshift_list"):
            ops.append([kind, idx(), idxs()])
        elif kind in ("chain_r", "chain_l"):
            ops.append([kind, idx(), idxs(), idx()])
        elif kind == "mlist_r_dis":
            ops.append([kind, idxs(), idx()])
        elif kind in ("mlist_r_list", "mlist_l_list"):
            ops.append([kind, idxs(), idxs(1, 3)])
        elif kind in ("chain_r_list", "chain_l_list"):
            ops.append([kind, idx(), idxs(1, 3), idxs(1, 3)])
        elif kind == "connect":
            fr = [[i, draw(st.booleans())] for i in idxs(1, 3)]
            to = [[i, draw(st.booleans())] for i in idxs(1, 3)]
            ops.append(["connect", fr, to])
        elif kind == "connect_single":
            ops.append(["connect_single", [idx(), draw(st.booleans())], [idx(), draw(st.booleans())]])
        elif kind == "x":
            ops.append(["x", draw(st.sampled_from(["rshift", "lshift", "connect_to", "connect_from", "connect_list", "dis"])), idx(), draw(st.integers(1, 2))])
        elif kind == "xsame":
            if base == 0:
                ops.append(["xsame", idx(), idx(), draw(st.integers(0, 3))])
        elif kind == "reuse":
            sp = draw(st.sampled_from(["rshift", "lshift", "connect_to", "connect_from"]))
            ops.append(["reuse", sp, idxs(2, 3), [[i, draw(st.booleans())] for i in idxs(1, 3)]])
        elif kind == "xmix":
            sp = draw(st.sampled_from(["connect_to", "connect_from", "rshift", "lshift", "mlist_rshift", "mlist_lshift", "chain_empty"]))
            own = [[i, draw(st.booleans()) if sp.startswith("connect") else False] for i in idxs(1, 3)]
            ops.append(["xmix", sp, [idx(), False], own, draw(st.integers(1, 2)), draw(st.integers(0, 3))])
        elif kind == "xlink":
            ops.append(["xlink", draw(st.integers(0, 2)), draw(st.integers(0, 2)), draw(st.booleans())])
        elif kind == "save_load":
            ops.append(["save_load"])
        elif kind == "save":
            ops.append(["save"])
    case = {"types": types, "ops": ops}
    if base:
        case["base"] = base
    return case


def run_ops(ctx, case, prop="C07", on_save_load=None):
    """Execute a recipe, checking the model after every step.  Returns label set."""
    from rv.errors import ModuleOwnershipError

    world = lm.World(n_initial=len(case["types"]), types=case["types"], base=case.get("base", 0), version=case.get("sunvox_version"))
    E = set()
    ever_removed = set()
    labels = set()
    for step, op in enumerate(case["ops"]):
        before = lm.tables(world.project)
        if op[0] == "xlink":
            # the other project is used in its own right; this project must not notice
            world.apply(op)
            lm.check_consistency(world.foreign, None, prop)
            if lm.tables(world.project) != before:
                raise PropertyViolation(prop + ".other_project_op_leaks", "step %d: a link operation inside another project changed this project's tables" % step)
            labels.add("other_project_linked")
            continue
        if op[0] == "x":
            foreign_before = lm.tables(world.foreign)
            err = world.apply(op)
            labels.add("cross_project")
            if not isinstance(err, ModuleOwnershipError):
                raise PropertyViolation(prop + ".cross_project.refused", "step %d %r: expected ModuleOwnershipError, got %r" % (step, op, err))
            lm.check_consistency(world.project, E, prop)
            if lm.tables(world.project) != before:
                raise PropertyViolation(prop + ".cross_project.unchanged", "step %d %r changed the link tables" % (step, op))
            if lm.tables(world.foreign) != foreign_before:
                raise PropertyViolation(prop + ".cross_project.foreign_tables", "the refused operation changed the other project's tables: %r -> %r" % (foreign_before, lm.tables(world.foreign)))
            continue
        if op[0] == "xsame":
            foreign_before = None
            err = world.apply(op)
            E.add((op[1], op[2]))
            labels.add("cross_project_same_link_in_both")
            if not isinstance(err, ModuleOwnershipError):
                raise PropertyViolation(prop + ".cross_project.refused", "step %d %r: both projects hold the link %d -> %d; a request across them: expected ModuleOwnershipError, got %r" % (step, op, op[1], op[2], err))
            lm.check_consistency(world.project, E, prop)
            lm.check_consistency(world.foreign, None, prop)
            continue
        if op[0] == "xmix":
            # a refused request that also names modules of this project: whatever part of it was carried
            # out, no pair may end up in the state opposite to what was asked, no unnamed pair may change
            foreign_before = lm.tables(world.foreign)
            E_before = set(lm.edges_of(world.project))
            err = world.apply(op)
            labels.add("cross_project_mixed_request")
            if not isinstance(err, ModuleOwnershipError):
                raise PropertyViolation(prop + ".cross_project.refused", "step %d %r: expected ModuleOwnershipError, got %r" % (step, op, err))
            lm.check_consistency(world.project, None, prop)
            E_after = set(lm.edges_of(world.project))
            a, dis_a = op[2]
            asked = {}
            for b, dis_b in op[3]:
                pair = (a, b) if op[1] in ("connect_to", "rshift", "mlist_lshift") else (b, a)
                dis = (dis_a or dis_b) if op[1].startswith("connect") else False
                asked.setdefault(pair, set()).add(dis)
            for pair in (E_before | E_after):
                if pair not in asked and ((pair in E_before) != (pair in E_after)):
                    raise PropertyViolation(prop + ".cross_project.mixed.unnamed_pair", "step %d %r: pair %r was not named by the refused request and changed" % (step, op, pair))
            for pair, want in asked.items():
                if want == {False} and pair in E_before and pair not in E_after:
                    labels.add("mixed_request_names_connected_pair")
                    raise PropertyViolation(prop + ".cross_project.mixed.inverse", "step %d %r: pair %r was connected, the refused request asked to connect it, now it is gone" % (step, op, pair))
                if want == {True} and pair not in E_before and pair in E_after:
                    raise PropertyViolation(prop + ".cross_project.mixed.inverse", "step %d %r: pair %r was not connected, the refused request asked to disconnect it, now it exists" % (step, op, pair))
                if (want == {False} and pair in E_before) or (want == {True} and pair not in E_before):
                    labels.add("mixed_request_with_noop_pair")
            if lm.tables(world.foreign) != foreign_before:
                raise PropertyViolation(prop + ".cross_project.foreign_tables", "the refused operation changed the other project's tables")
            # the part of the request that was carried out (if any) is now part of the history
            for pair in E_after - E_before:
                E.add(pair)
            for pair in E_before - E_after:
                E.discard(pair)
                ever_removed.add(pair)
            continue
        if op[0] == "save_load":
            if on_save_load is None:
                continue
            on_save_load(world, E, step, labels)
            continue
        if op[0] == "save":
            # saving (result discarded) must leave the tables exactly as they are
            world.project.read()
            if lm.tables(world.project) != before:
                raise PropertyViolation(prop + ".save_changes_tables", "step %d: saving changed the link tables: %r -> %r" % (step, before, lm.tables(world.project)))
            labels.add("save_midway")
            continue
        if op[0] == "fanout":
            labels.add("fan_out_of_more_than_255" if op[3] - op[2] > 255 else "fan_out_of_more_than_16")
        if op[0] == "reuse":
            labels.add("operand_list_reused")
            if any(d for _, d in op[3]):
                labels.add("operand_list_with_disconnects_reused")
        prs = lm.pairs_of_op(op)
        for f, t, dis in prs:
            if f == t:
                labels.add("self_loop")
            if not dis and (f, t) in ever_removed:
                labels.add("reconnect_after_disconnect")
            if dis and (f, t) in E:
                ever_removed.add((f, t))
        if len(prs) > 1 and any((f, t) in E for f, t, d in prs if not d):
            labels.add("list_overlap")
        if len(prs) > 1 and len({d for _, _, d in prs}) == 2:
            labels.add("mixed_disconnect_list")
        world.apply(op)
        lm.model_apply(E, op)
        lm.check_consistency(world.project, E, prop)
        for t in lm.tables(world.project):
            if t and (-1 in t[0][:-1] or -1 in t[2][:-1]):
                labels.add("freed_slot_middle")
    return labels, world, E


def run_shard(ctx, desc):
    k = desc["kind"]
    if k == "lifetime":
        run_lifetime(ctx)
        return
    if k == "churn":
        run_churn(ctx, desc["variant"])
        return
    if k == "dfs":
        firsts = [desc["first"]] if "first" in desc else list(range(*desc["first_range"]))
        run_dfs(ctx, desc["nodes"], desc["depth"], firsts)
    elif k == "overlap":
        run_overlap(ctx)
    else:

        def body(case):
            ctx.case()
            labels, _, _ = run_ops(ctx, case)
            ctx.label(*labels)
            if case.get("base"):
                ctx.label("modules_at_positions_above_256")
            if labels & {"reconnect_after_disconnect", "list_overlap", "freed_slot_middle"}:
                ctx.mark_nontrivial(case)
            ctx.sample(case)

        run_property(ctx, op_list(desc["max_modules"], desc["max_ops"], big=desc.get("big", False), wide=desc.get("wide", False)), body, desc["examples"], tag="ops_big" if desc.get("big") else "ops")


def run_churn(ctx, variant):
    """a->b is requested and withdrawn k times while a->c, d->b (and, variant 2, b->a) stay; the tables are
    examined after every request.  k passes 127/128/129, 255/256/257."""
    from io import BytesIO

    from rv.api import Project, m, read_sunvox_file

    k = 300 if ctx.tier == "quick" else 700
    p = Project()
    types = [(m.Amplifier, m.Amplifier, m.Amplifier, m.Amplifier), (m.MultiCtl, m.Amplifier, m.Filter, m.MultiCtl), (m.Generator, m.MetaModule, m.Echo, m.Amplifier)][variant]
    a, b, c, d = [p.new_module(cls) for cls in types]
    E = set()
    rec = {"op": "churn", "variant": variant}

    def req(x, y, dis=False):
        if dis:
            x >> ~y
            E.discard((x.index, y.index))
        else:
            x >> y
            E.add((x.index, y.index))

    try:
        req(a, c)
        req(d, b)
        if variant == 2:
            req(b, a)
        req(c, p.output)
        for i in range(k):
            ctx.case()
            req(a, b)
            lm.check_consistency(p, E)
            if i == 5:
                # a link made in between stays: it sits behind freed slots from now on
                req(a, d)
            if i == 9 and variant != 1:
                req(c, b)
            if i % 50 == 7:
                # the user saves now and then; a copy loaded from that file is consistent as well
                q = read_sunvox_file(BytesIO(p.read()))
                lm.check_consistency(q, set(E))
            req(a, b, dis=True)
            lm.check_consistency(p, E)
            if variant == 1 and i % 2:
                # the withdrawn request comes from the other side every other time
                b << a
                E.add((a.index, b.index))
                lm.check_consistency(p, E)
                b << ~a
                E.discard((a.index, b.index))
                lm.check_consistency(p, E)
        req(a, b)
        lm.check_consistency(p, E)
        q = read_sunvox_file(BytesIO(p.read()))
        lm.check_consistency(q, set(E))
        ctx.mark_nontrivial(rec)
        ctx.label("one_link_toggled_more_than_256_times")
    except PropertyViolation as v:
        ctx.check(False, v.sub_oracle, "churn variant %d, after %d requests: %s" % (variant, ctx.evaluations, v.detail), key=v.key, recipe=rec)
    except Exception as e:  # noqa: BLE001
        from vlib.harness import as_violation

        v = as_violation(e, "C07", "churn")
        if v is None:
            raise
        ctx.check(False, v.sub_oracle, "churn variant %d: %s" % (variant, v.detail), key=v.key, recipe=rec)
    ctx.sample(rec)


def run_lifetime(ctx):
    """The program keeps only the modules (a helper built or loaded the project and returned its
    modules): the link operators on them still work, on the project they belong to."""
    import gc
    from io import BytesIO

    from rv.api import Pattern, Project, m, read_sunvox_file

    def built(with_pattern):
        p = Project()
        mods = [p.new_module(cls) for cls in (m.Amplifier, m.Generator, m.MultiSynth, m.Echo)]
        if with_pattern:
            p.attach_pattern(Pattern(tracks=1, lines=1))
        return mods

    def loaded(with_pattern):
        p = Project()
        for cls in (m.Amplifier, m.Generator, m.MultiSynth, m.Echo):
            p.new_module(cls)
        if with_pattern:
            p.attach_pattern(Pattern(tracks=1, lines=1))
        return read_sunvox_file(BytesIO(p.read())).modules[1:]

    for name, maker in (("built", built), ("loaded", loaded)):
        for with_pattern in (False, True):
            for collect in (False, True):
                ctx.case()
                rec = {"op": "lifetime", "how": name, "pattern": with_pattern, "gc": collect}
                mods = maker(with_pattern)
                if collect:
                    gc.collect()
                a, b, c, d = mods
                E = set()
                try:
                    a >> b
                    E.add((a.index, b.index))
                    a >> [c, d]
                    E |= {(a.index, c.index), (a.index, d.index)}
                    d << [b, c]
                    E |= {(b.index, d.index), (c.index, d.index)}
                    a >> ~c
                    E.discard((a.index, c.index))
                    owner = a.parent
                    ok = owner is not None and all(x.parent is owner for x in mods) and all(owner.modules[x.index] is x for x in mods)
                    ctx.check(ok, "C07.lifetime.owner", "modules %s by a helper that dropped the project: they no longer all name one project that holds them" % name, recipe=rec)
                    if ok:
                        lm.check_consistency(owner, E, "C07")
                except PropertyViolation as v:
                    ctx.check(False, v.sub_oracle, "project dropped by the caller (%s): %s" % (name, v.detail), key=v.key, recipe=rec)
                except Exception as e:  # noqa: BLE001
                    ctx.check(False, "C07.lifetime.operators_fail", "modules %s by a helper that dropped the project: a link operator raised %s: %s" % (name, type(e).__name__, e), recipe=rec)
                ctx.mark_nontrivial(rec)
    ctx.label("project_object_dropped_by_caller")
    ctx.sample({"op": "lifetime"})


def replay(ctx, doc):
    r = doc["recipe"]
    if r.get("op") == "lifetime":
        from vlib.harness import Ctx

        c2 = Ctx(ctx.prop, ctx.tier, ctx.seed, 0, 1, [])
        run_lifetime(c2)
        if c2.failures:
            raise PropertyViolation(c2.failures[0]["sub_oracle"], c2.failures[0]["detail"], c2.failures[0]["key"])
        return
    if r.get("op") == "churn":
        from vlib.harness import Ctx

        c2 = Ctx(ctx.prop, ctx.tier, ctx.seed, 0, 1, [])
        run_churn(c2, r["variant"])
        if c2.failures:
            raise PropertyViolation(c2.failures[0]["sub_oracle"], c2.failures[0]["detail"], c2.failures[0]["key"])
        return
    if "case" in r:
        run_ops(ctx, r["case"])
        return
    if r.get("op") == "dfs":
        world = lm.World(n_initial=r["nodes"] - 1, types=["Amplifier", "Generator", "MultiCtl"])
        E = set()
        for a, b, dis in r["history"]:
            apply_single(world, a, b, bool(dis), 2)
            (E.discard if dis else E.add)((a, b))
            lm.check_consistency(world.project, E)
    elif r.get("op") == "overlap":
        world = lm.World(n_initial=3, types=["Amplifier"])
        E = set()
        for f, t in r["pre"]:
            world.project.connect(world.mod(f), world.mod(t))
            E.add((f, t))
        a0, b0, dis0 = r["first"]
        apply_single(world, a0, b0, bool(dis0), 2)
        (E.discard if dis0 else E.add)((a0, b0))
        s = r["second"]
        lst = [(~world.mod(x) if s["disconnect"] else world.mod(x)) for x in s["list"]]
        if s["orient"] == "from":
            world.project.connect(world.mod(s["module"]), lst)
        else:
            world.project.connect(lst, world.mod(s["module"]))
        for x in s["list"]:
            pr = (s["module"], x) if s["orient"] == "from" else (x, s["module"])
            (E.discard if s["disconnect"] else E.add)(pr)
        lm.check_consistency(world.project, E)
