"""C13 - generated module metadata agrees with the YAML specification.

Finite domain, enumerated completely: every (entity, field) pair of the 43 module
types is compared between specs/fileformat.yaml (parsed by vlib.specmodel, which shares
no code with rv/genrv) and (a) the classes registered at import time, (b) classes
obtained by rendering the genrv template from the current spec and exec'ing the result.
"""

from __future__ import annotations

import enum
import os

from vlib import specmodel
from vlib.harness import REPO, HarnessError

PROPERTY_ID = "C13"
LEVEL = "exploration"
RULE = (
    "complete enumeration of (module type, entity, field) comparisons between "
    "specs/fileformat.yaml and rv.modules.MODULE_CLASSES (sub-check 'registered'), and "
    "between the spec and classes rendered from the genrv template + the checked-in "
    "classes (sub-check 'generator'); sub-check 'after_use': the registered metadata is re-compared (fingerprint) after every fixture "
    "has been loaded/saved and after each Hypothesis-generated use of the library (load, catalogue-driven edits incl. MetaModule count/mapping "
    "changes, save, reload; byte-mutated files and files with surplus controller values loaded and re-saved). Every comparison / generated use is distinct; non-trivial = "
    "every comparison whose spec side is not an absent/None value"
    ' Also (added while the seeded-change rounds of DESIGN section 9 ran): Plus: the metadata fingerprint after generated use of the library (after_use) and as built in freshly started interpreters (import_env: -O, -OO, -W error, -X dev, other hash seed, C locale, other first imports, logging opened up before the import).'
)
# this check looks at the registered classes themselves: classes derived by a program would take their place
USER_SUBCLASSES = False
RULE += " Rounds 12-14 of DESIGN section 9 added: stock metadata after deriving classes (plain, own controller, controller-bearing mix-in before / after the stock class) and after refused constructions / assignments; the fingerprint includes the options' exclusivity lists and bounds."
ASSUMPTIONS = [
    "PyYAML parses specs/fileformat.yaml faithfully",
    "vlib.specmodel's reading of the YAML keys (min/max/enum/bool/depends_on/compact/no_offset, option keys) is the intended one",
    "Jinja2 renders the template as genrv would (black/isort formatting is not semantically relevant)",
]


def exhaustive(tier):
    return False  # the static comparisons are complete; the after-use sub-check is generated search


def plan(tier):
    descs = [{"kind": "registered"}, {"kind": "generator"}, {"kind": "instances"}]
    # the metadata must still equal the specification after the library has been used
    n, per = (6, 40) if tier == "quick" else (12, 400)
    for i in range(n):
        descs.append({"kind": "after_use", "examples": per, "focus": [None, "MetaModule", "Sampler"][i % 3]})
    from vlib import subproc

    names = sorted(subproc.VARIANTS)
    for i in range(3):
        descs.append({"kind": "import_env", "variants": names[i::3]})
    descs.append({"kind": "after_subclassing"})
    return descs


# ---------------------------------------------------------------------------------------


class Cmp:
    def __init__(self, ctx, sub):
        self.ctx = ctx
        self.sub = sub

    def eq(self, ent, field, got, want):
        self.ctx.case()
        ident = "%s:%s" % (ent, field)
        if want is not None and want != [] and want is not False:
            self.ctx.mark_nontrivial([self.sub, ident])
        if self.ctx.evaluations % 211 == 0:
            self.ctx.sample({"sub": self.sub, "entity": ent, "field": field, "spec": want, "code": got})
        self.ctx.check(
            got == want and isinstance(got, bool) == isinstance(want, bool),
            "C13.%s.%s" % (self.sub, field),
            "%s: %s is %r in code, %r in spec" % (ent, field, got, want),
            key="C13.%s:%s" % (self.sub, ident),
            recipe={"sub": self.sub, "entity": ent, "field": field, "spec": want, "code": got},
        )


def describe_value_type(vt):
    from rv.controller import CompactRange, DependentRange, NoOffsetRange, Range, WarnOnlyRange

    if vt is bool:
        return {"kind": "bool"}
    if isinstance(vt, type) and issubclass(vt, enum.Enum):
        return {
            "kind": "enum",
            "enum": vt.__name__,
            "members": {m.name: m.value for m in vt},
            "is_int": issubclass(vt, enum.IntEnum),
        }
    if isinstance(vt, DependentRange):
        rm = {}
        for k, r in vt.range_map.items():
            rm[k.name] = (r.min, r.max, type(r).__name__)
        return {
            "kind": "dependent",
            "depends_on": vt.ctl_name,
            "ranges": rm,
            "key_enum": sorted({type(k).__name__ for k in vt.range_map}),
            "default": (vt.default.min, vt.default.max, type(vt.default).__name__),
        }
    if type(vt) is CompactRange:
        return {"kind": "compact", "min": vt.min, "max": vt.max}
    if type(vt) is NoOffsetRange:
        return {"kind": "no_offset", "min": vt.min, "max": vt.max}
    if type(vt) is Range:
        return {"kind": "range", "min": vt.min, "max": vt.max}
    if type(vt) is WarnOnlyRange:
        return {"kind": "warnonly", "min": vt.min, "max": vt.max}
    return {"kind": "unknown:%r" % (vt,)}


def compare_class(cmp, mt, cls, ordered_ctls, options, allow_extra_unattached=(), order_known=True, check_chnm=True):
    """ordered_ctls: list of (name, Controller) in definition order."""
    ent = mt.cls_name
    cmp.eq(ent, "mtype", getattr(cls, "mtype", None), mt.mtype)
    cmp.eq(ent, "group", getattr(cls, "mgroup", None), mt.group)
    cmp.eq(ent, "default_flags", getattr(cls, "default_flags", None), mt.flags)
    cmp.eq(ent, "flags", getattr(cls, "flags", None), mt.flags)
    # enums declared in the spec exist on the class with the same members
    for en, members in mt.enums.items():
        e = getattr(cls, en, None)
        got = {m.name: m.value for m in e} if isinstance(e, type) and issubclass(e, enum.Enum) else None
        cmp.eq(ent, "enum.%s" % en, got, dict(members))
    spec_names = [c.name for c in mt.controllers]
    code_names = [n for n, _ in ordered_ctls]
    extras = [n for n in code_names if n not in spec_names]
    cmp.eq(ent, "controller_order", [n for n in code_names if n in spec_names], spec_names)
    cmp.eq(ent, "extra_controllers", sorted(set(extras) - set(allow_extra_unattached)), [])
    # spec controllers must come first, numbered 1..n in order
    cmp.eq(ent, "controller_prefix", code_names[: len(spec_names)], spec_names)
    cmap = dict(ordered_ctls)
    for c in mt.controllers:
        ctl = cmap.get(c.name)
        cent = "%s.%s" % (ent, c.name)
        if ctl is None:
            cmp.eq(cent, "exists", False, True)
            continue
        if order_known:
            cmp.eq(cent, "number", ctl.number, c.number)
            cmp.eq(cent, "name", ctl.name, c.name)
        cmp.eq(cent, "attached_flag", bool(ctl._attached), True)
        d = describe_value_type(ctl.value_type)
        cmp.eq(cent, "kind", d["kind"], c.kind)
        if c.kind in ("range", "compact", "no_offset"):
            cmp.eq(cent, "min", d.get("min"), c.min)
            cmp.eq(cent, "max", d.get("max"), c.max)
            cmp.eq(cent, "default", ctl.default, c.default)
        elif c.kind == "enum":
            cmp.eq(cent, "enum", d.get("enum"), c.enum)
            cmp.eq(cent, "members", d.get("members"), dict(c.members))
            cmp.eq(cent, "is_int_enum", d.get("is_int"), True)
            dn = ctl.default.name if isinstance(ctl.default, enum.Enum) else repr(ctl.default)
            cmp.eq(cent, "default", dn, c.default)
            if isinstance(ctl.default, enum.Enum):
                cmp.eq(cent, "default_value", ctl.default.value, c.members[c.default])
        elif c.kind == "bool":
            cmp.eq(cent, "default", ctl.default, c.default)
        elif c.kind == "dependent":
            cmp.eq(cent, "depends_on", d.get("depends_on"), c.depends_on)
            cmp.eq(cent, "unit_enum", d.get("key_enum"), [c.enum])
            want = {k: (lo, hi, "WarnOnlyRange") for k, (lo, hi) in c.ranges.items()}
            cmp.eq(cent, "ranges", d.get("ranges"), want)
            first = next(iter(c.ranges.values()))
            cmp.eq(cent, "first_entry_default", d.get("default"), (first[0], first[1], "WarnOnlyRange"))
            cmp.eq(cent, "default", ctl.default, c.default)
    for n in extras:
        if n in allow_extra_unattached:
            cmp.eq("%s.%s" % (ent, n), "extra_is_unattached", bool(cmap[n]._attached), False)
    # options
    spec_opts = {o.name: o for o in mt.options}
    cmp.eq(ent, "option_names", sorted(options), sorted(spec_opts))
    if check_chnm and mt.options:
        # options_chnm lives on the hand-written class; the template does not emit it
        cmp.eq(ent, "options_chnm", getattr(cls, "options_chnm", None), mt.options_chnm)
    for name, so in spec_opts.items():
        o = options.get(name)
        oent = "%s.%s" % (ent, name)
        if o is None:
            cmp.eq(oent, "exists", False, True)
            continue
        cmp.eq(oent, "name", o.name, so.name)
        cmp.eq(oent, "byte", o.byte, so.byte)
        cmp.eq(oent, "bit", o.bit, so.bit)
        cmp.eq(oent, "size", o.size, so.size)
        cmp.eq(oent, "number", o.number, so.number)
        cmp.eq(oent, "inverted", bool(o.inverted), so.inverted)
        cmp.eq(oent, "exclusive_of", list(o.exclusive_of), so.exclusive_of)
        cmp.eq(oent, "min", o.min, so.min)
        cmp.eq(oent, "max", o.max, so.max)
        if so.enum:
            e = getattr(cls, so.enum, None)
            want_member = getattr(e, str(so.default), None) if e is not None else None
            cmp.eq(oent, "default_member", repr(o.default), repr(want_member))
            cmp.eq(oent, "default_value", int(o.default) if want_member is not None else None, mt.enums[so.enum].get(specmodel.mangle(so.default)))
        else:
            cmp.eq(oent, "default", o.default, so.default)


def spec_and_classes():
    import rv.modules as m

    spec = specmodel.load()
    return spec, dict(m.MODULE_CLASSES)


def check_registered(ctx):
    from rv.controller import Controller
    from rv.modules.metamodule import UserDefinedProxy
    from rv.option import Option

    cmp = Cmp(ctx, "registered")
    spec, classes = spec_and_classes()
    by_mtype = {mt.mtype: mt for mt in spec.values()}
    cmp.eq("*", "registered_type_names", sorted(classes), sorted(by_mtype))
    seen_cls = {}
    for mtype, cls in sorted(classes.items()):
        seen_cls.setdefault(cls, []).append(mtype)
    cmp.eq("*", "one_class_per_type", sorted(len(v) for v in seen_cls.values()), [1] * len(seen_cls))
    # no other Module subclass with an mtype exists outside the registry
    from rv.modules.module import Module

    def subclasses(c):
        for s in c.__subclasses__():
            yield s
            yield from subclasses(s)

    unreg = sorted(
        s.__name__ for s in set(subclasses(Module)) if getattr(s, "mtype", None) and classes.get(s.mtype) is not s
    )
    cmp.eq("*", "unregistered_module_classes", unreg, [])
    for mtype, mt in sorted(by_mtype.items()):
        cls = classes.get(mtype)
        if cls is None:
            continue
        cmp.eq(mt.cls_name, "class_name", cls.__name__, mt.cls_name)
        ordered = list(cls.controllers.items())
        allow = ()
        if mt.cls_name == "Sampler":
            allow = ("vibrato_type", "vibrato_attack", "vibrato_depth", "vibrato_rate", "volume_fadeout")
        if mt.cls_name == "MetaModule":
            allow = tuple("user_defined_%d" % (i + 1) for i in range(96))
            proxies = [n for n, c in ordered if isinstance(c, UserDefinedProxy)]
            cmp.eq(mt.cls_name, "user_defined_proxies", proxies, list(allow))
            ordered_for_cmp = [(n, c) for n, c in ordered if not isinstance(c, UserDefinedProxy)]
            # proxies come after the spec'd controllers and are numbered 6..101
            cmp.eq(mt.cls_name, "proxy_numbers", [c.number for n, c in ordered if isinstance(c, UserDefinedProxy)], list(range(6, 102)))
            inst = cls()
            cmp.eq(mt.cls_name, "proxies_unattached_by_default", [c.attached(inst) for n, c in ordered if isinstance(c, UserDefinedProxy)], [False] * 96)
            ordered = ordered_for_cmp
            allow = ()
        # everything in dir(cls) that is a Controller must be in cls.controllers
        dir_ctls = sorted(k for k in dir(cls) if isinstance(getattr(cls, k), Controller))
        cmp.eq(mt.cls_name, "controllers_registry_complete", sorted(cls.controllers), dir_ctls)
        dir_opts = {k: getattr(cls, k) for k in dir(cls) if isinstance(getattr(cls, k), Option)}
        cmp.eq(mt.cls_name, "options_registry_complete", sorted(cls.options), sorted(dir_opts))
        compare_class(cmp, mt, cls, ordered, dict(cls.options), allow_extra_unattached=allow)
        cmp.eq(mt.cls_name, "controller_numbers", [c.number for _, c in cls.controllers.items()], list(range(1, len(cls.controllers) + 1)))


def render_all():
    """Render the genrv template for each module type from the current spec and exec it."""
    try:
        import jinja2
        import yaml
    except ImportError as e:
        raise HarnessError("jinja2/yaml missing: %s" % e)
    gen_dir = os.path.join(REPO, "src", "python", "genrv", "codegen")
    env = jinja2.Environment(
        loader=jinja2.PrefixLoader({"python": jinja2.FileSystemLoader(os.path.join(gen_dir, "python"))})
    )
    # the real generator's filters
    import importlib.util

    gpath = os.path.join(REPO, "src", "python", "genrv", "tools", "generate.py")
    src = open(gpath).read()
    # take enumname() from the generator without importing its CLI dependencies
    import ast

    tree = ast.parse(src)
    fn = [n for n in tree.body if isinstance(n, ast.FunctionDef) and n.name == "enumname"]
    if not fn:
        raise HarnessError("enumname() not found in genrv/tools/generate.py")
    ns = {}
    exec(compile(ast.Module(body=fn, type_ignores=[]), gpath, "exec"), ns)
    env.filters.update(enumname=ns["enumname"], hex=hex, repr=repr)
    with open(os.path.join(REPO, "specs", "fileformat.yaml")) as f:
        fileformat = yaml.safe_load(f)
    template = env.get_template("python/base_module.py.jinja2")
    out = {}
    for modtype_name, modtype in fileformat["module_types"].items():
        ctlmap = {}
        for ctls in modtype.get("controllers", []):
            for ctlname, ctl in ctls.items():
                ctlmap[ctlname] = ctl
        content = template.render(dict(modtype=modtype, modtype_name=modtype_name, ctlmap=ctlmap))
        g = {"__name__": "rendered_" + modtype_name}
        exec(compile(content, "<rendered %s>" % modtype_name, "exec"), g)
        out[modtype_name] = (g["Base" + modtype_name], content)
    return out


def ordered_controllers_of(cls):
    from rv.controller import Controller

    items = [(k, v) for k, v in vars(cls).items() if isinstance(v, Controller)]
    items.sort(key=lambda kv: kv[1]._order)
    return items


def check_generator(ctx):
    import importlib

    from rv.option import Option

    cmp = Cmp(ctx, "generator")
    spec = specmodel.load()
    rendered = render_all()
    cmp.eq("*", "rendered_types", sorted(rendered), sorted(spec))
    for name, mt in sorted(spec.items()):
        rcls, _ = rendered[name]
        ordered = ordered_controllers_of(rcls)
        for i, (k, c) in enumerate(ordered, 1):  # what ModuleMeta would assign
            c.name, c.number = k, i
        opts = {k: v for k, v in vars(rcls).items() if isinstance(v, Option)}
        compare_class(cmp, mt, rcls, ordered, opts, check_chnm=False)
        # the checked-in base class must equal the freshly rendered one
        try:
            bmod = importlib.import_module("rv.modules.base." + name.lower())
            bcls = getattr(bmod, "Base" + name)
        except Exception as e:  # noqa: BLE001
            cmp.eq(name, "checked_in_base_importable", repr(e), None)
            continue
        b_ordered = ordered_controllers_of(bcls)
        cmp.eq(name, "checked_in.controller_order", [k for k, _ in b_ordered], [k for k, _ in ordered])
        for (bk, bc), (rk, rc) in zip(b_ordered, ordered):
            cmp.eq("%s.%s" % (name, rk), "checked_in.value_type", describe_value_type(bc.value_type), describe_value_type(rc.value_type))
            cmp.eq("%s.%s" % (name, rk), "checked_in.default", repr(bc.default), repr(rc.default))
            cmp.eq("%s.%s" % (name, rk), "checked_in.attached", bool(bc._attached), bool(rc._attached))
        b_opts = {k: v for k, v in vars(bcls).items() if isinstance(v, Option)}
        cmp.eq(name, "checked_in.option_names", sorted(b_opts), sorted(opts))
        for k in sorted(set(b_opts) & set(opts)):
            cmp.eq("%s.%s" % (name, k), "checked_in.option", repr(b_opts[k]), repr(opts[k]))
        for attr in ("name", "mtype", "mgroup", "flags", "default_flags"):
            cmp.eq(name, "checked_in." + attr, getattr(bcls, attr, None), getattr(rcls, attr, None))
        # array chunk classes
        from rv.chunks import ArrayChunk

        r_chunks = {k: v for k, v in vars(rcls).items() if isinstance(v, type) and issubclass(v, ArrayChunk)}
        b_chunks = {k: v for k, v in vars(bcls).items() if isinstance(v, type) and issubclass(v, ArrayChunk)}
        cmp.eq(name, "checked_in.array_chunks", sorted(b_chunks), sorted(r_chunks))
        for k in sorted(set(r_chunks) & set(b_chunks)):
            for attr in ("chnm", "length", "type", "element_size", "min_value", "max_value"):
                cmp.eq("%s.%s" % (name, k), "checked_in.chunk." + attr, getattr(b_chunks[k], attr), getattr(r_chunks[k], attr))
            bd, rd = b_chunks[k]().values, r_chunks[k]().values if r_chunks[k].length else None
            if rd is not None:
                cmp.eq("%s.%s" % (name, k), "checked_in.chunk.default", list(bd), list(rd))


def check_instances(ctx):
    """Constructed objects expose the same numbering / membership as the class."""
    cmp = Cmp(ctx, "instances")
    spec, classes = spec_and_classes()
    for mtype, cls in sorted(classes.items()):
        mt = next(m for m in spec.values() if m.mtype == mtype)
        inst = cls()
        attached = [n for n, c in inst.controllers.items() if c.attached(inst)]
        cmp.eq(mt.cls_name, "attached_controllers_of_fresh_instance", attached, [c.name for c in mt.controllers])
        cmp.eq(mt.cls_name, "instance_mtype", inst.mtype, mt.mtype)
        cmp.eq(mt.cls_name, "instance_flags", inst.flags, mt.flags)
        cmp.eq(mt.cls_name, "option_values_keys", sorted(inst.option_values), sorted(o.name for o in mt.options))


def fingerprint(items=None):
    """Cheap digest of everything check_registered compares (class-level metadata only)."""
    import rv.modules as m

    out = []
    for mtype, cls in (sorted(m.MODULE_CLASSES.items()) if items is None else items):
        ctls = []
        for name, c in cls.controllers.items():
            vt = c.value_type
            ctls.append((name, c.number, repr(describe_value_type(vt)) if not type(c).__name__.startswith("UserDefined") else "proxy", repr(c.default), bool(c._attached)))
        opts = [(n, repr(o), tuple(getattr(o, "exclusive_of", ()) or ()), getattr(o, "min", None), getattr(o, "max", None), getattr(o, "inverted", None), getattr(o, "default", None)) for n, o in sorted(cls.options.items())]
        out.append((mtype, cls.__name__, getattr(cls, "mgroup", None), getattr(cls, "default_flags", None), getattr(cls, "flags", None), getattr(cls, "options_chnm", None), tuple(ctls), tuple(opts)))
    return tuple(out)


def run_after_use(ctx, desc):
    """Metamorphic: class metadata is the same before and after any use of the library."""
    import glob

    from checks import c06
    from vlib.harness import Ctx, PropertyViolation, run_property

    fp0 = fingerprint()

    def compare(what):
        if fingerprint() != fp0:
            c2 = Ctx(ctx.prop, ctx.tier, ctx.seed, 0, 1, [])
            check_registered(c2)
            detail = "; ".join(f["detail"] for f in c2.failures[:3]) or "class metadata changed (not a spec'd field)"
            raise PropertyViolation("C13.after_use.metadata_changed", "after %s the registered metadata no longer equals the specification: %s" % (what, detail), key="C13.after_use.metadata_changed")

    # every fixture loaded and saved once
    from rv.api import read_sunvox_file

    for f in sorted(glob.glob(os.path.join(REPO, "tests", "files", "**", "*.sun*"), recursive=True)):
        ctx.case()
        read_sunvox_file(f).read()
        compare("loading and saving %s" % os.path.basename(f))
    ctx.label("after_fixtures")

    # constructions and assignments that the library refuses (wrong types, out-of-range values, unknown keywords)
    import rv.modules as _m

    for mtype, cls in sorted(_m.MODULE_CLASSES.items()):
        names = list(cls.options) + list(cls.controllers)[:3] + ["no_such_keyword"]
        for name in names:
            for bad in (None, "2", 2.5, [], object(), -(2**40), 2**40):
                ctx.case()
                try:
                    cls(**{name: bad})
                except Exception:  # noqa: BLE001 - refusing is fine; what it leaves behind is looked at
                    pass
                try:
                    setattr(cls(), name, bad)
                except Exception:  # noqa: BLE001
                    pass
        compare("refused constructions / assignments of %s" % cls.__name__)
    ctx.label("after_refused_constructions")

    def body(case):
        ctx.case()
        try:
            c06.run_case(ctx, case)
        except PropertyViolation:
            pass  # C06's own verdicts are C06's business; here only the metadata matters
        compare("edits %r on a %s" % ([e[:4] for e in case["edits"]], case["src"]))
        ctx.label("after_generated_use")
        ctx.mark_nontrivial(case)
        if len(repr(case)) < 900:
            ctx.sample({"sub": "after_use", "case": case})

    if not run_property(ctx, c06.edit_case(focus=desc.get("focus")), body, desc["examples"], tag="after_use", bucket="after_use"):
        return

    # files a newer writer could produce: byte mutants (C05's generator) and modules carrying more
    # controller values than this version knows
    from hypothesis import strategies as st

    from checks import c05
    from vlib import chunktools

    def body2(case):
        ctx.case()
        data = c05.bytes_of_case(case["base"])
        if case["surplus"]:
            chunks = chunktools.parse(data)
            out = []
            for i, (cid, pl) in enumerate(chunks):
                nxt = chunks[i + 1][0] if i + 1 < len(chunks) else None
                out.append((cid, pl))
                if cid == b"CVAL" and nxt != b"CVAL":
                    for v in case["surplus"]:
                        out.append((b"CVAL", struct.pack("<i", v)))
                if cid == b"CMID" and False:
                    pass
            # keep CMID consistent with the longer CVAL list
            out = [(cid, pl + b"\0\0\0\0\0\0\0\xff" * len(case["surplus"])) if cid == b"CMID" else (cid, pl) for cid, pl in out]
            data = chunktools.build(out)
        if case["styp"]:
            # a type name that is not the specified spelling (other case / spacing / the Python class name)
            chunks = chunktools.parse(data)
            idx = [i for i, (cid, _) in enumerate(chunks) if cid == b"STYP"]
            if idx:
                i = idx[case["styp"][0] % len(idx)]
                name = chunks[i][1].split(b"\0")[0].decode("utf8", "replace")
                by = specmodel.by_mtype()
                variants = [name.upper(), name.lower(), name.replace(" ", ""), name.title(), by[name].cls_name if name in by else name + "x", " " + name]
                v = variants[case["styp"][1] % len(variants)]
                chunks[i] = (b"STYP", v.encode("utf8") + b"\0")
                data = chunktools.build(chunks)
                import rv.modules as rvm

                for probe in (v, v.strip()):
                    try:
                        rvm.MODULE_CLASSES.get(probe)
                        probe in rvm.MODULE_CLASSES
                        rvm.MODULE_CLASSES[probe]
                    except KeyError:
                        pass
        try:
            o = c05.load(data)
            y = o.read()
            c05.load(y).read()
        except Exception:  # noqa: BLE001  (unloadable mutants are outside every quantifier)
            pass
        compare("loading/saving a %s file with mutations %r and %d surplus controller values" % (case["base"]["src"], case["base"]["mutations"][:2], len(case["surplus"])))
        ctx.label("after_foreign_file")
        ctx.mark_nontrivial(case)

    import struct

    strat = st.fixed_dictionaries({"base": c05.mutant_case(), "surplus": st.lists(st.integers(-5, 70000), max_size=3), "styp": st.one_of(st.just(None), st.lists(st.integers(0, 50), min_size=2, max_size=2))})
    run_property(ctx, strat, body2, desc["examples"], tag="after_use_files", bucket="after_use")


def run_after_subclassing(ctx):
    """A program derives its own module classes from the stock ones - with nothing added, with a controller of its
    own in the class body, with a controller-bearing mix-in listed before and listed after the stock class.  The
    stock classes' metadata stays what the specification says, and every derived class keeps the specified
    controllers first, in order, with their numbers (the n-th stored value is the n-th specified controller's)."""
    import rv.modules as m
    from rv.controller import Controller

    stock = sorted(m.MODULE_CLASSES.items())
    fp0 = fingerprint(stock)
    for mtype, cls in stock:
        if cls.__name__ == "Output":
            continue
        spec_names = [(n, c.number) for n, c in cls.controllers.items()]
        for variant in ("plain", "body", "mixin_before", "mixin_after"):
            ctx.case()
            rec = {"op": "after_subclassing", "class": cls.__name__, "variant": variant}
            mix = type("Metered", (), {"meter_gain": Controller((0, 256), 128)})
            if variant == "plain":
                sub = type("My" + cls.__name__, (cls,), {})
            elif variant == "body":
                sub = type("My" + cls.__name__, (cls,), {"meter_gain": Controller((0, 256), 128)})
            elif variant == "mixin_before":
                sub = type("My" + cls.__name__, (mix, cls), {})
            else:
                sub = type("My" + cls.__name__, (cls, mix), {})
            got = [(n, c.number) for n, c in sub.controllers.items()][: len(spec_names)]
            ctx.check(got == spec_names, "C13.after_subclassing.derived_order", "%s derived from %s (%s): its first controllers are %r, the specified ones are %r" % (sub.__name__, cls.__name__, variant, got[:4], spec_names[:4]), key="C13.after_subclassing.derived_order:" + variant, recipe=rec)
            if fingerprint(stock) != fp0:
                now = [(n, c.number) for n, c in cls.controllers.items()]
                ctx.check(False, "C13.after_subclassing.stock_changed", "deriving a class from %s (%s) changed the stock classes' metadata; %s controllers now %r" % (cls.__name__, variant, cls.__name__, now[:4]), key="C13.after_subclassing.stock_changed:" + variant, recipe=rec)
                return
            ctx.mark_nontrivial(rec)
    ctx.label("after_subclassing")
    ctx.sample({"op": "after_subclassing", "classes": len(stock) - 1, "variants": 4})


def run_import_env(ctx, desc):
    """The class metadata is built while the library is imported: it must come out the same however
    the interpreter was started and whatever the program did before the import."""
    import hashlib
    import json

    from vlib import subproc
    from vlib.harness import jsonable

    body = "import logging\nfrom checks import c13\nfrom vlib.harness import jsonable\nimport hashlib, json\nfp = c13.fingerprint()\nRESULT = {'digest': hashlib.sha256(json.dumps(jsonable(fp), sort_keys=True).encode()).hexdigest(), 'classes': len(fp), 'first_controllers': {t[0]: [c[0] for c in t[6]][:4] for t in fp[:6]}}\n"
    here = hashlib.sha256(json.dumps(jsonable(fingerprint()), sort_keys=True).encode()).hexdigest()
    for v in desc["variants"]:
        ctx.case()
        res = subproc.run(v, body)
        rec = {"op": "import_env", "variant": v}
        if res.get("__failed__"):
            ctx.check(False, "C13.import_env.import_fails", "importing the library in a fresh interpreter (%s) failed: rc=%r %s" % (v, res.get("returncode"), (res.get("stderr") or "")[-400:]), key="C13.import_env:" + v, recipe=rec)
            continue
        ctx.check(res["digest"] == here, "C13.import_env.metadata_differs", "class metadata built in a fresh interpreter (%s) differs from this process's: %d classes, e.g. %r" % (v, res["classes"], res["first_controllers"]), key="C13.import_env:" + v, recipe=rec)
        ctx.label("import_env_" + v)
        ctx.mark_nontrivial(rec)
        ctx.sample(rec)


def run_shard(ctx, desc):
    if desc.get("kind") == "after_subclassing":
        run_after_subclassing(ctx)
        return
    if desc.get("kind") == "import_env":
        run_import_env(ctx, desc)
        return
    k = desc["kind"]
    if k == "after_use":
        run_after_use(ctx, desc)
        return
    if k == "registered":
        check_registered(ctx)
    elif k == "generator":
        check_generator(ctx)
    elif k == "instances":
        check_instances(ctx)


def replay_after_use(ctx, doc):
    from checks import c06
    from vlib.harness import PropertyViolation

    fp0 = fingerprint()
    try:
        c06.run_case(ctx, doc["recipe"]["case"])
    except PropertyViolation:
        pass
    if fingerprint() != fp0:
        raise PropertyViolation("C13.after_use.metadata_changed", "registered metadata changed by the replayed use")


def replay(ctx, doc):
    if doc["recipe"].get("tag") == "after_use":
        return replay_after_use(ctx, doc)
    if doc["recipe"].get("op") == "after_subclassing":
        from vlib.harness import Ctx, PropertyViolation

        c2 = Ctx(ctx.prop, ctx.tier, ctx.seed, 0, 1, [])
        run_after_subclassing(c2)
        if c2.failures:
            raise PropertyViolation(c2.failures[0]["sub_oracle"], c2.failures[0]["detail"], c2.failures[0]["key"])
        return
    if doc["recipe"].get("op") == "import_env":
        from vlib.harness import Ctx, PropertyViolation

        c2 = Ctx(ctx.prop, ctx.tier, ctx.seed, 0, 1, [])
        run_import_env(c2, {"variants": [doc["recipe"]["variant"]]})
        if c2.failures:
            raise PropertyViolation(c2.failures[0]["sub_oracle"], c2.failures[0]["detail"], c2.failures[0]["key"])
        return
    """A saved C13 failure names (sub, entity, field); re-run that sub-check completely
    and fail if that comparison still fails."""
    from vlib.harness import Ctx, PropertyViolation

    r = doc["recipe"]
    sub = r.get("sub", "registered")
    c2 = Ctx(ctx.prop, ctx.tier, ctx.seed, 0, 1, [])
    run_shard(c2, {"kind": sub})
    for f in c2.failures:
        if f["recipe"].get("entity") == r.get("entity") and f["recipe"].get("field") == r.get("field"):
            raise PropertyViolation(f["sub_oracle"], f["detail"], f["key"])
