"""C20 - MultiCtl fan-out stays within each target's range and is monotone."""

from __future__ import annotations

from hypothesis import strategies as st

from vlib import specmodel
from vlib import strategies as vs
from vlib.harness import PropertyViolation, as_violation, run_property

PROPERTY_ID = "C20"
LEVEL = "exploration"
RULE = (
    "(a) macro helper: every (type, controller) pair alone (thorough: all 502; quick: one per type + every non-range kind), generated multi-target "
    "calls of 1..16 targets, 17 targets and duplicate-module calls, name/initial given or omitted; (b) propagation: Hypothesis draws (target "
    "type+ranged controller, window, gain, quantization, curve) tuples and for every tuple the whole input axis 0..32768 is enumerated through "
    "MultiCtl.value inside a project (1..4 targets per MultiCtl drawn per range kind so that compact / negative-minimum / no-offset / ordinary targets mix in one fan-out, the remaining MultiCtl controllers out_offset / response / sample_rate at drawn values, incl. a link whose mapping names no controller, a link that was made and removed again, and a link to a module lacking the mapped controller); (c) the same tuples x20 through "
    "convert_value directly with the arguments on_value_changed passes. distinct = tuple hash; non-trivial = window strictly inside (0,32768) or "
    "reversed, with gain != 256 or quantization < 32768, or a non-default curve"
    " Also (added while the seeded-change rounds of DESIGN section 9 ran): Also: the MultiCtl's remaining controllers at drawn values, targets drawn per range kind, a second configuration on the same object swept downwards, a chained case (input driven by another MultiCtl, twin oracle), and a deterministic sweep of every distinct range shape of the specification with edge windows."
)
ASSUMPTIONS = [
    "ranged target = controller whose declared value type is a fixed Range (unit-dependent targets are skipped by the library and not claimed)",
    "compact targets (MultiSynth.transpose): windows within 0..max-min, the unit in which the helper itself builds them",
    "generated curves are monotone non-decreasing sequences of 257 values in 0..0x8000",
]
# classes of cases that are produced deterministically: their absence is a harness error (see vlib.harness)
HARD_LABELS = ['macro_single', 'every_range_shape_with_edge_windows', 'macro_too_many', 'macro_duplicate']
REQUIRED_LABELS = {
    "quick": ["macro_single", "macro_multi", "macro_too_many", "macro_duplicate", "axis_normal", "axis_reversed", "unset_mapping_link", "curve_custom", "quantized", "convert_direct", "freed_slot_link", "link_to_controllerless_module", "multictl_out_offset_negative", "multictl_out_offset_set", "compact_target_before_other_target", "mixed_range_kinds_in_one_fanout", "every_range_shape_with_edge_windows", "windows_edited_in_place_then_swept_again", "chained_multictl"],
    "thorough": ["macro_single", "macro_multi", "macro_too_many", "macro_duplicate", "axis_normal", "axis_reversed", "unset_mapping_link", "curve_custom", "quantized", "convert_direct", "compact_target"],
}


def exhaustive(tier):
    return False


def plan(tier):
    names = sorted(n for n in specmodel.load() if specmodel.load()[n].controllers)
    descs = []
    for i in range(4):
        descs.append({"kind": "macro_singles", "types": names[i::4]})
    descs.append({"kind": "macro_random", "examples": 150 if tier == "quick" else 2000})
    n, per = (16, 12) if tier == "quick" else (16, 400)
    for i in range(n):
        descs.append({"kind": "axis", "examples": per})
    for i in range(4):
        descs.append({"kind": "convert", "examples": per * 5})
    # every distinct range shape (kind, min, max) of the specification with edge windows / gains,
    # inputs at both ends of the axis and a stride in between
    shapes = {}
    for t in ranged_targets():
        shapes.setdefault((t[3], t[4], t[5]), t)
    reps = [shapes[k] for k in sorted(shapes)]
    for i in range(8):
        descs.append({"kind": "shapes", "targets": [list(t) for t in reps[i::8]]})
    return descs


def cls_of(tname):
    import rv.modules as m

    return m.MODULE_CLASSES[specmodel.load()[tname].mtype]


def ranged_targets():
    out = []
    for name, mt in sorted(specmodel.load().items()):
        for c in mt.controllers:
            if c.kind in ("range", "compact", "no_offset"):
                out.append((name, c.name, c.number, c.kind, c.min, c.max))
    return out


# --- (a) macro helper -------------------------------------------------------------------------


def snapshot_project(p):
    return [(None if m is None else (type(m).__name__, list(m.in_links), list(m.out_links), dict(m.controller_values))) for m in p.modules]


def macro_call(ctx, targets, name, initial, by_name):
    """targets: list of [type, ctl name, module slot]; module slot groups targets on one module."""
    from rv.api import Project, m
    from rv.errors import MappingError

    p = Project()
    mods = {}
    pairs = []
    for tname, cname, slot in targets:
        if slot not in mods:
            mods[slot] = p.new_module(cls_of(tname))
        mod = mods[slot]
        pairs.append((mod, cname if by_name else type(mod).controllers[cname]))
    before = snapshot_project(p)
    n_before = len(p.modules)
    dup = len({s for _, _, s in targets}) != len(targets)
    too_many = len(targets) > 16
    kw = {}
    if name is not None:
        kw["name"] = name
    if initial is not None:
        kw["initial"] = initial
    err = None
    try:
        mc = m.MultiCtl.macro(p, *pairs, **kw)
    except Exception as e:  # noqa: BLE001
        err = e
    rec = {"targets": targets, "name": name, "initial": initial, "by_name": by_name}
    if too_many or dup:
        if not isinstance(err, MappingError):
            raise PropertyViolation("C20.macro.refuses", "%d targets (duplicate module: %s): expected MappingError, got %r" % (len(targets), dup, err))
        if snapshot_project(p) != before or len(p.modules) != n_before:
            raise PropertyViolation("C20.macro.refused_unchanged", "refused macro call changed the project")
        return "macro_too_many" if too_many else "macro_duplicate"
    if err is not None:
        v = as_violation(err, "C20", "macro")
        raise PropertyViolation("C20.macro.created", "macro(%r) raised %s: %s" % (targets, type(err).__name__, err), key=(v.sub_oracle if v else "C20.macro.created"))
    if not isinstance(mc, m.MultiCtl) or mc.parent is not p or p.modules[mc.index] is not mc:
        raise PropertyViolation("C20.macro.attached", "returned module is not attached to the project")
    want_links = [mods[s].index for _, _, s in targets]
    if [x for x in mc.out_links] != want_links:
        raise PropertyViolation("C20.macro.links", "out_links %r, expected the targets in order %r" % (mc.out_links, want_links))
    for i, (tname, cname, slot) in enumerate(targets):
        num = specmodel.load()[tname].ctl(cname).number
        if mc.mappings.values[i].controller != num:
            raise PropertyViolation("C20.macro.mapping", "mapping %d names controller %r, expected %d (%s.%s)" % (i, mc.mappings.values[i].controller, num, tname, cname))
        tm = mods[slot]
        if mc.index not in tm.in_links:
            raise PropertyViolation("C20.macro.links", "target %s has no incoming link from the MultiCtl" % tname)
    if name is not None and mc.name != name:
        raise PropertyViolation("C20.macro.name", "name %r not applied (%r)" % (name, mc.name))
    # delivered initial value keeps every ranged target within its declared range
    for tname, cname, slot in targets:
        c = specmodel.load()[tname].ctl(cname)
        if c.kind in ("range", "compact", "no_offset"):
            v = getattr(mods[slot], cname)
            if not (c.min <= v <= c.max):
                raise PropertyViolation("C20.macro.initial_in_range", "%s.%s = %r after macro(initial=%r), range [%d,%d]" % (tname, cname, v, initial, c.min, c.max))
    return "macro_single" if len(targets) == 1 else "macro_multi"


def run_macro_singles(ctx, types):
    spec = specmodel.load()
    for tname in types:
        mt = spec[tname]
        ctls = mt.controllers if ctx.tier == "thorough" else [c for i, c in enumerate(mt.controllers) if i == 0 or c.kind != "range" or c.min != 0][:6]
        for c in ctls:
            for initial in (None, 0, 20000, 32768):
                for by_name in (True, False):
                    ctx.case()
                    rec = {"targets": [[tname, c.name, 0]], "name": None, "initial": initial, "by_name": by_name}
                    try:
                        lab = macro_call(ctx, rec["targets"], "macro", initial, by_name)
                        ctx.label(lab, "target_kind_" + c.kind)
                        ctx.mark_nontrivial(rec)
                    except PropertyViolation as v:
                        ctx.check(False, v.sub_oracle, v.detail, key=v.key, recipe=rec)
        ctx.sample({"op": "macro_singles", "type": tname, "controllers": len(ctls)})


@st.composite
def macro_case(draw):
    spec = specmodel.load()
    names = sorted(n for n in spec if spec[n].controllers)
    mode = draw(st.sampled_from(["ok", "ok", "ok", "too_many", "dup"]))
    n = draw(st.integers(1, 16)) if mode != "too_many" else draw(st.integers(17, 20))
    targets = []
    for i in range(n):
        t = draw(st.sampled_from(names))
        c = draw(st.sampled_from(spec[t].controllers))
        targets.append([t, c.name, i])
    if mode == "dup" and n >= 2:
        i = draw(st.integers(1, n - 1))
        j = draw(st.integers(0, i - 1))
        targets[i] = [targets[j][0], draw(st.sampled_from(spec[targets[j][0]].controllers)).name, targets[j][2]]
    name = draw(st.one_of(st.none(), st.just("macro"), vs.text_no_nul(10)))
    initial = draw(st.one_of(st.none(), vs.edge_int(0, 32768)))
    return {"targets": targets, "name": name if name else "m", "initial": initial, "by_name": draw(st.booleans())}


# --- (b) propagation over the whole axis ------------------------------------------------------------


@st.composite
def curve_strategy(draw):
    kind = draw(st.sampled_from(["default", "default", "steps", "random", "flat", "late"]))
    if kind == "default":
        return None
    if kind == "flat":
        v = draw(st.integers(0, 0x8000))
        return [v] * 257
    if kind == "late":
        k = draw(st.integers(0, 256))
        return [0] * k + [0x8000] * (257 - k)
    if kind == "steps":
        n = draw(st.integers(1, 8))
        return [min(0x8000, (i * n // 257) * (0x8000 // n)) for i in range(257)]
    incs = draw(st.lists(st.integers(0, 600), min_size=257, max_size=257))
    out, acc = [], draw(st.integers(0, 2000))
    for d in incs:
        acc = min(0x8000, acc + d)
        out.append(acc)
    return out


@st.composite
def axis_case(draw):
    tg = ranged_targets()
    # the kinds of range are mixed within one fan-out (compact, negative minimum, no-offset, span 32768, ordinary)
    classes = {}
    spec_all = specmodel.load()
    for name_, mt_ in sorted(spec_all.items()):
        for c_ in mt_.controllers:
            if c_.kind == "dependent":
                for unit_, (lo_, hi_) in sorted(c_.ranges.items()):
                    tg.append((name_, c_.name, c_.number, "dependent", lo_, hi_, c_.depends_on, unit_))
    for t in tg:
        k = "dependent" if t[3] == "dependent" else "compact" if t[3] == "compact" else "no_offset" if t[3] == "no_offset" else "negmin" if t[4] < 0 else "span32768" if t[5] - t[4] == 32768 else "ordinary"
        classes.setdefault(k, []).append(t)
    n = draw(st.integers(1, 4))
    targets = []
    for _ in range(n):
        t = draw(st.one_of(st.sampled_from(tg), st.sampled_from(sorted(classes)).flatmap(lambda k: st.sampled_from(classes[k]))))
        span = t[5] - t[4]
        hi = span if t[3] == "compact" else 32768
        a = draw(vs.edge_int(0, hi, extra=(1, hi - 1, hi // 2)))
        b = draw(vs.edge_int(0, hi, extra=(1, hi - 1, hi // 2, a, min(hi, a + 1))))
        targets.append({"type": t[0], "ctl": t[1], "number": t[2], "kind": t[3], "min": t[4], "max": t[5], "window": [a, b]})
        if t[3] == "dependent":
            targets[-1]["unit"] = [t[6], t[7]]
    return {
        "targets": targets,
        "gain": draw(vs.edge_int(0, 1024, extra=(255, 256, 257, 512))),
        "quantization": draw(st.one_of(st.just(32768), vs.edge_int(0, 32768, extra=(2, 3, 7, 100, 32767)))),
        "curve": draw(curve_strategy()),
        "unset_link": draw(st.booleans()),
        # a link that was made and removed again (freed slot in the middle of out_links, its mapping
        # still set), and a link to a module that lacks the mapped controller (the Output module)
        "freed_slot": draw(st.booleans()),
        "link_to_output": draw(st.booleans()),
        "second_config": draw(st.sampled_from([None, None, "reverse", "narrow"])),
        # the MultiCtl's remaining controllers take any in-range value; containment and monotonicity hold whatever they are
        "others": draw(st.one_of(st.just({}), st.fixed_dictionaries({}, optional={"out_offset": vs.edge_int(-16384, 16384, extra=(-1, 1, -8192, 8192)), "response": vs.edge_int(0, 1000, extra=(1, 500)), "sample_rate": vs.edge_int(1, 32768, extra=(150,))}))),
    }


def run_axis_case(ctx, case, stride=1):
    from rv.api import Project, m

    p = Project()
    mods = []
    mappings = []
    ghost = None
    if case.get("freed_slot"):
        ghost = p.new_module(m.Amplifier, volume=5)
        mappings.append((0, 0x8000, 1, 0, 0, 0, 0, 0))
    for t in case["targets"]:
        mods.append(p.new_module(cls_of(t["type"])))
        if t.get("unit"):
            # a controller whose declared range depends on a unit: the unit is chosen first
            setattr(mods[-1], t["unit"][0], getattr(cls_of(t["type"]).controllers[t["unit"][0]].value_type, t["unit"][1]))
        mappings.append((t["window"][0], t["window"][1], t["number"], 0, 0, 0, 0, 0))
    bystander = None
    if case["unset_link"]:
        bystander = p.new_module(m.Amplifier, volume=123, bipolar_dc_offset=-77)
        mappings.append((0, 0x8000, 0, 0, 0, 0, 0, 0))
    if case.get("link_to_output"):
        mappings.append((0, 0x8000, 2, 0, 0, 0, 0, 0))
    kw = dict(gain=case["gain"], quantization=case["quantization"], mappings=mappings, **case.get("others", {}))
    if case["curve"] is not None:
        kw["curve"] = list(case["curve"])
    mc = p.new_module(m.MultiCtl, **kw)
    mc >> (([ghost] if ghost else []) + mods + ([bystander] if bystander else []) + ([p.output] if case.get("link_to_output") else []))
    if ghost is not None:
        mc >> ~ghost
    # whatever module happens to be last in the project must not receive anything it is not linked for
    last = p.new_module(m.Amplifier, volume=77, balance=-3)
    uninvolved = [x for x in (ghost, last) if x is not None]
    uninvolved_before = [dict(x.controller_values) for x in uninvolved]
    by_snapshot = dict(bystander.controller_values) if bystander else None
    prev = [None] * len(mods)
    ctlnames = [t["ctl"] for t in case["targets"]]
    initial = [mods[i].controller_values[ctlnames[i]] for i in range(len(mods))]
    for v in (case.get("inputs") or range(0, 32769, stride)):
        try:
            mc.value = v
        except Exception as e:  # noqa: BLE001
            raise PropertyViolation("C20.propagate.no_exception", "value=%d with %r raised %s: %s" % (v, {k: case[k] for k in ("gain", "quantization")}, type(e).__name__, e))
        for i, t in enumerate(case["targets"]):
            got = mods[i].controller_values[ctlnames[i]]
            if t["kind"] == "dependent" and got == initial[i]:
                continue  # nothing was delivered to this target (allowed: the property bounds what is delivered)
            if not (t["min"] <= got <= t["max"]) or not isinstance(got, int):
                raise PropertyViolation("C20.propagate.in_range", "input %d delivers %r to %s.%s%s, range [%d,%d]" % (v, got, t["type"], t["ctl"], " (unit %s)" % t["unit"][1] if t.get("unit") else "", t["min"], t["max"]))
            pv = prev[i]
            if pv is not None:
                a, b = t["window"]
                if (a <= b and got < pv) or (a > b and got > pv):
                    raise PropertyViolation("C20.propagate.monotone", "input %d -> %d delivers %r after %r to %s.%s (window %r)" % (v - stride, v, got, pv, t["type"], t["ctl"], t["window"]))
            prev[i] = got
    # the same MultiCtl goes on being used: its windows are edited in place (reversed / narrowed), and the
    # inputs now come in descending order, starting with the value it was driven with last
    if case.get("second_config"):
        for i, t in enumerate(case["targets"]):
            mp = mc.mappings.values[(1 if ghost is not None else 0) + i]
            a, b = t["window"]
            if case["second_config"] == "reverse":
                mp.min, mp.max = b, a
            else:
                mp.min, mp.max = min(a, b) // 2, max(a, b)
        prev2 = [None] * len(mods)
        seq = list(case.get("inputs") or range(0, 32769, stride))[::-1]
        for v in seq:
            try:
                mc.value = v
            except Exception as e:  # noqa: BLE001
                raise PropertyViolation("C20.propagate.no_exception", "second configuration, value=%d raised %s: %s" % (v, type(e).__name__, e))
            for i, t in enumerate(case["targets"]):
                got = mods[i].controller_values[ctlnames[i]]
                mp = mc.mappings.values[(1 if ghost is not None else 0) + i]
                if t["kind"] == "dependent":
                    continue
                if not (t["min"] <= got <= t["max"]) or not isinstance(got, int):
                    raise PropertyViolation("C20.propagate.in_range", "second configuration: input %d delivers %r to %s.%s, range [%d,%d]" % (v, got, t["type"], t["ctl"], t["min"], t["max"]))
                pv = prev2[i]
                if pv is not None:
                    # inputs descend: for a normal window the delivered values must not rise, for a reversed one not fall
                    if (mp.min <= mp.max and got > pv) or (mp.min > mp.max and got < pv):
                        raise PropertyViolation("C20.propagate.monotone", "after the windows were edited in place (now %d..%d): input %d delivers %r after %r (inputs descending) to %s.%s" % (mp.min, mp.max, v, got, pv, t["type"], t["ctl"]), key="C20.propagate.monotone.second_config")
                prev2[i] = got
    for x, before in zip(uninvolved, uninvolved_before):
        if dict(x.controller_values) != before:
            raise PropertyViolation("C20.propagate.unlinked_module_changed", "a module that is not (or no longer) linked to the MultiCtl changed: %r -> %r" % (before, dict(x.controller_values)))
    if bystander is not None and dict(bystander.controller_values) != by_snapshot:
        raise PropertyViolation("C20.propagate.unset_mapping", "link whose mapping names no controller changed its target: %r -> %r" % (by_snapshot, dict(bystander.controller_values)))
    labels = set()
    for t in case["targets"]:
        labels.add("axis_normal" if t["window"][0] <= t["window"][1] else "axis_reversed")
        if t["kind"] == "compact":
            labels.add("compact_target")
        if t["kind"] == "dependent":
            labels.add("unit_dependent_target")
        if t["min"] < 0:
            labels.add("negative_min_target")
    if case["unset_link"]:
        labels.add("unset_mapping_link")
    if case.get("freed_slot"):
        labels.add("freed_slot_link")
    if case.get("link_to_output"):
        labels.add("link_to_controllerless_module")
    if case["curve"] is not None:
        labels.add("curve_custom")
    if case["quantization"] < 32768:
        labels.add("quantized")
    if case.get("second_config"):
        labels.add("windows_edited_in_place_then_swept_again")
    kinds = [("compact" if t["kind"] == "compact" else "other") for t in case["targets"]]
    if "compact" in kinds and "other" in kinds[kinds.index("compact") + 1 :]:
        labels.add("compact_target_before_other_target")
    if len({(t["kind"], t["min"] < 0) for t in case["targets"]}) > 1:
        labels.add("mixed_range_kinds_in_one_fanout")
    for k, v in case.get("others", {}).items():
        labels.add("multictl_%s_%s" % (k, "negative" if v < 0 else "set"))
    return labels


def run_chain_case(ctx, case):
    """A MultiCtl whose input is itself driven by another MultiCtl (or, every third input, assigned
    directly) delivers exactly what a twin delivers whose input is assigned directly: the fan-out
    belongs to the input value, whichever way it arrived."""
    from rv.api import Project, m

    def world():
        p = Project()
        mods = [p.new_module(cls_of(t["type"])) for t in case["targets"]]
        mappings = [(t["window"][0], t["window"][1], t["number"], 0, 0, 0, 0, 0) for t in case["targets"]]
        kw = dict(gain=case["gain"], quantization=case["quantization"], mappings=mappings)
        if case["curve"] is not None:
            kw["curve"] = list(case["curve"])
        mc = p.new_module(m.MultiCtl, **kw)
        mc >> mods
        return p, mc, mods

    p, mc, mods = world()
    driver = p.new_module(m.MultiCtl, mappings=[(0, 0x8000, 1, 0, 0, 0, 0, 0)])  # controller 1 of a MultiCtl is its value
    driver >> mc
    p2, mc2, mods2 = world()
    names = [t["ctl"] for t in case["targets"]]
    inputs = sorted(set(range(0, 32769, 211)) | {1, 2, 32767, 32768, 16384})
    order = inputs + inputs[::-1]
    for j, v in enumerate(order):
        if j % 3 == 2:
            mc.value = v
        else:
            driver.value = v
        b_in = mc.value
        mc2.value = b_in
        for i, t in enumerate(case["targets"]):
            if t["kind"] == "dependent":
                continue
            got, want = mods[i].controller_values[names[i]], mods2[i].controller_values[names[i]]
            if not (t["min"] <= got <= t["max"]):
                raise PropertyViolation("C20.chain.in_range", "driver input %d -> MultiCtl input %d delivers %r to %s.%s, range [%d,%d]" % (v, b_in, got, t["type"], t["ctl"], t["min"], t["max"]))
            if got != want:
                raise PropertyViolation("C20.chain.delivers_for_current_input", "MultiCtl input %d (set %s): %s.%s holds %r, a twin whose input was assigned directly delivers %r" % (b_in, "directly" if j % 3 == 2 else "by a driving MultiCtl with input %d" % v, t["type"], t["ctl"], got, want))
    return {"chained_multictl"}


def nontrivial_axis(case):
    for t in case["targets"]:
        a, b = t["window"]
        inside = 0 < min(a, b) and max(a, b) < 32768
        if (inside or a > b) and (case["gain"] != 256 or case["quantization"] < 32768):
            return True
    return case["curve"] is not None


# --- (c) convert_value directly -----------------------------------------------------------------------


def run_convert_case(ctx, case):
    from rv.modules.multictl import convert_value

    default_curve = [min(0x8000, i * 0x80) for i in range(257)]
    curve = case["curve"] if case["curve"] is not None else default_curve
    for t in case["targets"]:
        span = t["max"] - t["min"]
        vmax = None if t["kind"] == "compact" else span
        smin, smax = t["window"]
        dmin, dmax = 0, span
        if smin > smax:
            smin, smax = smax, smin
            dmin, dmax = dmax, dmin
        prev = None
        for v in list(range(0, 32769, 37)) + [32767, 32768]:
            out = convert_value(case["gain"], case["quantization"], smin, smax, dmin, dmax, vmax, v, curve)
            if not isinstance(out, int) or not (0 <= out <= span):
                raise PropertyViolation("C20.convert.in_range", "convert_value(gain=%d,q=%d,s=[%d,%d],d=[%d,%d],vmax=%r,value=%d) = %r outside 0..%d" % (case["gain"], case["quantization"], smin, smax, dmin, dmax, vmax, v, out, span))
            if prev is not None and v > prev[0]:
                if (dmin <= dmax and out < prev[1]) or (dmin > dmax and out > prev[1]):
                    raise PropertyViolation("C20.convert.monotone", "convert_value not monotone between inputs %d and %d: %r then %r (window [%d,%d], d=[%d,%d])" % (prev[0], v, prev[1], out, smin, smax, dmin, dmax))
            prev = (v, out)


def run_shard(ctx, desc):
    k = desc["kind"]
    if k == "macro_singles":
        run_macro_singles(ctx, desc["types"])
    elif k == "macro_random":

        def body(case):
            ctx.case()
            lab = macro_call(ctx, case["targets"], case["name"], case["initial"], case["by_name"])
            ctx.label(lab)
            ctx.mark_nontrivial(case)
            ctx.sample({"op": "macro", "n_targets": len(case["targets"]), "first": case["targets"][:2], "initial": case["initial"], "outcome": lab})

        run_property(ctx, macro_case(), body, desc["examples"], tag="macro")
    elif k == "shapes":
        inputs = sorted(set(range(0, 130)) | set(range(32640, 32769)) | set(range(0, 32769, 257)) | {16383, 16384, 16385})
        for t in desc["targets"]:
            span = t[5] - t[4]
            hi = span if t[3] == "compact" else 32768
            for a, b in ((0, hi), (hi, 0), (1, hi - 1), (hi - 1, 1), (0, hi // 2), (hi, hi // 2)):
                for gain in (256, 1024, 255):
                    for q in (32768, 3):
                        case = {
                            "targets": [{"type": t[0], "ctl": t[1], "number": t[2], "kind": t[3], "min": t[4], "max": t[5], "window": [a, b]}],
                            "gain": gain, "quantization": q, "curve": None, "unset_link": False, "freed_slot": False, "link_to_output": False, "others": {}, "inputs": inputs,
                        }
                        try:
                            run_axis_case(ctx, case)
                        except PropertyViolation as v:
                            ctx.check(False, v.sub_oracle, v.detail, key=v.sub_oracle + ":%s.%s" % (t[0], t[1]), recipe={"tag": "shapes", "case": case})
                        ctx.case(len(inputs))
            ctx.mark_nontrivial(["shape", t[3], t[4], t[5]])
            ctx.sample({"op": "shape", "target": t[:2], "range": t[3:6], "tuples": 36, "inputs_per_tuple": len(inputs)})
        ctx.label("every_range_shape_with_edge_windows")
    elif k == "axis":

        def body(case):
            labels = run_axis_case(ctx, case)
            if len(repr(case)) % 3 == 0:
                labels |= run_chain_case(ctx, case)
            ctx.case(32769)
            ctx.label(*labels)
            if nontrivial_axis(case):
                ctx.mark_nontrivial(case)
            c2 = dict(case)
            c2["curve"] = None if case["curve"] is None else "custom(%d..%d)" % (case["curve"][0], case["curve"][-1])
            ctx.sample(c2)

        run_property(ctx, axis_case(), body, desc["examples"], tag="axis")
    else:

        def body(case):
            run_convert_case(ctx, case)
            ctx.case(888 * len(case["targets"]))
            ctx.label("convert_direct")
            if nontrivial_axis(case):
                ctx.mark_nontrivial(case)

        run_property(ctx, axis_case(), body, desc["examples"], tag="convert")


def replay(ctx, doc):
    r = doc["recipe"]
    tag = r.get("tag")
    case = r.get("case", r)
    if tag == "shapes":
        run_axis_case(ctx, case)

    elif tag == "axis":
        run_axis_case(ctx, case)
        run_chain_case(ctx, case)
        run_convert_case(ctx, case)
    elif tag == "convert":
        run_convert_case(ctx, case)
    else:
        macro_call(ctx, case["targets"], case.get("name"), case.get("initial"), case.get("by_name", True))
