"""C05 - re-saving is stable: load/save is idempotent and saving is pure."""

from __future__ import annotations

import glob
import os
import struct
from io import BytesIO

from hypothesis import strategies as st

from vlib import build, chunktools, snapshot, specmodel
from vlib import strategies as vs
from vlib.harness import REPO, PropertyViolation, run_property

PROPERTY_ID = "C05"
LEVEL = "exploration"
RULE = (
    "X ranges over (a) every fixture under tests/files, (b) files written by the library from generated project / synth recipes (C01/C02 "
    "strategies), (c) structured mutants of (a) and (b): any top-level CVAL replaced by any int32 (edge-biased around the declared range; enum "
    "controllers only by members so the file stays loadable), option-chunk bytes replaced by arbitrary bytes, SLNK/SLnK entries replaced by "
    "indices of existing modules / small slot numbers / -1, PDTA cells replaced by valid cells; thorough additionally enumerates every CVAL of "
    "every fixture x 6 boundary values. Oracle: Y = save(load(X)); save(load(Y_n)) == Y_n for n = 1..3 (5 thorough); snapshot and raw link tables before save == "
    "after (for loaded and for freshly constructed objects); two saves of one object are identical; a loaded object saved before anyone looked at it writes the same bytes as one whose attributes were all read first, and reading them between two saves changes nothing, nor does unrelated use of the library (other modules with bindings, other files, failed loads) while the object stays alive; sources include MetaModules whose user-defined controllers are mapped onto embedded controllers of every kind. Files that do not load are outside the quantifier and counted. non-trivial = X carries an "
    "out-of-range stored value, or a freed link slot, or mutated option bytes"
    ' Also (added while the seeded-change rounds of DESIGN section 9 ran): Also: MetaModule sources with mapped user controllers, stored-twice links, trailing empty positions with selections pointing into them, clone chains, interleaved saves with an unrelated project.'
)
RULE += " Rounds 12-14 of DESIGN section 9 added: Samplers over the grid of instrument format versions x editor fields; files with surplus controller values behind a module's last CVAL (mutation and a sweep over every fixture)."
ASSUMPTIONS = [
    "a mutant that the library refuses to load is outside the property's quantifier ('for any loadable file')",
    "mutations touch top-level chunks only (embedded projects/effects are exercised through generated files)",
]
# classes of cases that are produced deterministically: their absence is a harness error (see vlib.harness)
HARD_LABELS = ['fixture', 'fixture_option_sweep', 'link_states']
REQUIRED_LABELS = {
    "quick": ["fixture", "generated_project", "generated_synth", "cval_out_of_range", "cval_neg_min_out_of_range", "option_bytes", "link_mutation", "pdta_mutation", "generated_metamodule", "user_controller_mapped_to_negative_min", "fixture_option_sweep", "link_states"],
    "thorough": ["fixture", "generated_project", "generated_synth", "cval_out_of_range", "cval_neg_min_out_of_range", "option_bytes", "link_mutation", "pdta_mutation", "fixture_cval_sweep"],
}


def exhaustive(tier):
    return False


def fixture_files():
    base = os.path.join(REPO, "tests", "files")
    return sorted(glob.glob(os.path.join(base, "**", "*.sunvox"), recursive=True) + glob.glob(os.path.join(base, "**", "*.sunsynth"), recursive=True))


def plan(tier):
    descs = [{"kind": "fixtures"}]
    n, per = (15, 150) if tier == "quick" else (16, 3000)
    for i in range(n):
        descs.append({"kind": "mutants", "examples": per})
    descs.append({"kind": "link_states"})
    descs.append({"kind": "sampler_record_grid"})
    for i in range(2):
        descs.append({"kind": "surplus_cvals", "files": fixture_files()[i::2]})
    fs_all = fixture_files()
    for i in range(4):
        descs.append({"kind": "fixture_option_sweep", "files": fs_all[i::4]})
    if tier == "thorough":
        fs = fixture_files()
        for i in range(8):
            descs.append({"kind": "fixture_cval_sweep", "files": fs[i::8]})
    return descs


# --- core oracle ------------------------------------------------------------------------------


def load(data):
    from rv.api import read_sunvox_file

    return read_sunvox_file(BytesIO(data))


def snap_any(o):
    return snapshot.snap(o)


def raw_tables(o):
    if type(o).__name__ != "Project":
        return None
    return [None if m is None else [list(m.in_links), list(m.in_link_slots), list(m.out_links), list(m.out_link_slots)] for m in o.modules]


def constructed_purity(case):
    """Saving an object that was built through the API (not loaded) must not change it either."""
    from rv.api import Synth

    if case["src"] == "project":
        o = build.make_project(case["spec"])
    elif case["src"] == "meta":
        from checks import c15

        o = Synth(c15.build_meta(case["spec"]))
    elif case["src"] == "synth":
        o = Synth(build.make_module(case["spec"]))
    else:
        return
    s0, raw0 = snap_any(o), raw_tables(o)
    y = o.read()
    if raw_tables(o) != raw0:
        raise PropertyViolation("C05.save_is_pure.links", "constructed %s: saving changed the link tables in place: %r -> %r" % (case["src"], raw0, raw_tables(o)))
    d = snapshot.diff(s0, snap_any(o))
    if d:
        raise PropertyViolation("C05.save_is_pure", "constructed %s: saving changed the object: %r" % (case["src"], d[:3]))
    if o.read() != y:
        raise PropertyViolation("C05.save_deterministic", "constructed %s: two saves of one object differ" % case["src"])


_OTHER = {}


def other_project():
    """A second, unrelated project whose modules have every kind of state a save passes through
    (options away from their defaults, bindings, curves, an embedded project, a sample)."""
    from rv.api import Pattern, Project, Synth, m

    p = Project()
    p.name = "other"
    ms = p.new_module(m.MultiSynth, round_note_x=True, out_port_mode=3, static_note_c5=True)
    ag = p.new_module(m.AnalogGenerator, smooth_frequency_change=False, filter_envelope_scaling_per_key=True, retain_phase=True, volume_envelope_scaling_per_key=True)
    sc = p.new_module(m.Sound2Ctl, send_only_changed_values=False, record_values=True)
    mm = p.new_module(m.MetaModule, event_output=False, arpeggiator=True, user_defined_controllers=3)
    mm.project.new_module(m.MultiSynth, round_pitch_y=True, trigger=True)
    sm = p.new_module(m.Sampler, record_on_play=True, record_in_mono=True, fit_to_pattern=200)
    smp = sm.Sample()
    smp.data = bytes(range(64))
    sm.samples[3] = smp
    sm.effect = Synth(m.AnalogGenerator(smooth_frequency_change=False))
    ms >> ag >> sc >> mm >> sm >> p.output
    pat = Pattern(tracks=2, lines=2)
    p.attach_pattern(pat)
    pat.data[1][1].module = 3
    return p


def stability(x, cycles, what):
    """Returns 'unloadable' or 'ok'; raises PropertyViolation."""
    try:
        o = load(x)
    except Exception:  # noqa: BLE001  - not loadable: outside the quantifier
        return "unloadable"
    if o is None:
        return "unloadable"
    s0 = snap_any(o)
    raw0 = raw_tables(o)
    y = o.read()
    if raw_tables(o) != raw0:
        raise PropertyViolation("C05.save_is_pure.links", "%s: saving changed the link tables in place: %r -> %r" % (what, raw0, raw_tables(o)))
    s1 = snap_any(o)
    d = snapshot.diff(s0, s1)
    if d:
        raise PropertyViolation("C05.save_is_pure", "%s: saving changed the object: %r" % (what, d[:3]))
    if o.read() != y:
        raise PropertyViolation("C05.save_deterministic", "%s: two saves of one object differ" % what)
    # looking at a loaded object is not a modification: an object that is saved first and inspected
    # afterwards writes the same bytes as one inspected first, before and after the inspection
    o2 = load(x)
    y2 = o2.read()
    if y2 != y:
        raise PropertyViolation("C05.inspection.before_vs_after", "%s: a loaded object saved without being looked at writes other bytes than one whose attributes were read first" % what, key="C05.inspection")
    snap_any(o2)
    if o2.read() != y2:
        raise PropertyViolation("C05.inspection.changes_output", "%s: reading the attributes of a loaded object between two saves changed what it writes" % what, key="C05.inspection")
    # two saves in progress at the same time (two programs parts pulling chunks from two objects in turn):
    # each still writes its own file
    from itertools import zip_longest

    def as_bytes(pairs):
        out = []
        for name, payload in pairs:
            if name is None:
                continue
            out.append(bytes(name[:4]).ljust(4, b" ") + struct.pack("<I", len(payload)) + bytes(payload))
        return b"".join(out)

    if "p" not in _OTHER:
        _OTHER["p"] = other_project()
    other = _OTHER["p"]
    other_alone = other.read()
    got_a, got_b = [], []
    for ca, cb in zip_longest(o.chunks(), other.chunks()):
        if ca is not None:
            got_a.append(ca)
        if cb is not None:
            got_b.append(cb)
    if as_bytes(got_a) != y or as_bytes(got_b) != other_alone:
        raise PropertyViolation("C05.save_is_pure.interleaved", "%s: written chunk by chunk in turn with another project, one of the two does not write what it writes alone" % what, key="C05.interleaved")
    # the program goes on to use the library for something else (other objects, other files) while
    # this object stays alive; it still writes the same bytes afterwards
    from vlib import noise

    noise.light(len(y))
    noise.light(len(y) // 7 + 3)
    if o2.read() != y2 or o.read() != y:
        raise PropertyViolation("C05.save_deterministic.after_other_use", "%s: an untouched loaded object writes other bytes after the library was used for unrelated objects" % what, key="C05.after_other_use")
    cur = y
    for n in range(1, cycles + 1):
        o3 = load(cur)
        if n % 2 == 0:
            snap_any(o3)
        nxt = o3.read()
        if nxt != cur:
            ca, cb = chunktools.parse(cur), chunktools.parse(nxt)
            firstdiff = next(((i, a, b) for i, (a, b) in enumerate(zip(ca, cb)) if a != b), None)
            desc = "chunk counts %d vs %d" % (len(ca), len(cb))
            key = "C05.drift"
            if firstdiff:
                i, a, b = firstdiff
                desc = "chunk %d: %r %s -> %r %s" % (i, a[0], a[1][:16].hex(), b[0], b[1][:16].hex())
                key = "C05.drift:" + a[0].decode("latin1")
            raise PropertyViolation("C05.drift", "%s: cycle %d: save(load(Y)) != Y (%s)" % (what, n, desc), key=key)
        cur = nxt
    return "ok"


# --- mutation -----------------------------------------------------------------------------------


def section_info(chunks):
    """For every top-level chunk index: (module_position, cval_ordinal or None).  Also module types."""
    spec_by_mtype = specmodel.by_mtype()
    info = []
    types = {}
    mod_i = -1
    cval_n = 0
    in_mod = False
    for i, (cid, payload) in enumerate(chunks):
        if cid == b"SFFF":
            mod_i += 1
            in_mod = True
            cval_n = 0
            types[mod_i] = "Output"
        elif cid == b"SEND":
            if not in_mod:
                mod_i += 1
            in_mod = False
        elif cid == b"STYP" and in_mod:
            t = payload.split(b"\0")[0].decode("utf8", "replace")
            types[mod_i] = spec_by_mtype[t].cls_name if t in spec_by_mtype else None
        if cid == b"CVAL" and in_mod:
            info.append((mod_i, cval_n))
            cval_n += 1
        else:
            info.append((mod_i if in_mod else None, None))
    return info, types


@st.composite
def mutation_list(draw, chunks):
    info, types = section_info(chunks)
    spec = specmodel.load()
    cval_idx = [i for i, (m, k) in enumerate(info) if k is not None]
    opt_idx = []
    for i, (cid, payload) in enumerate(chunks):
        if cid == b"CHDT" and i > 0 and chunks[i - 1][0] == b"CHNM":
            m = info[i][0]
            t = types.get(m)
            if t in spec and spec[t].options and struct.unpack("<I", chunks[i - 1][1])[0] == spec[t].options_chnm:
                opt_idx.append(i)
    link_idx = [i for i, (cid, p) in enumerate(chunks) if cid in (b"SLNK", b"SLnK") and p]
    pdta_idx = [i for i, (cid, p) in enumerate(chunks) if cid == b"PDTA" and len(p) >= 8]
    n_mods = 1 + max([m for m, _ in info if m is not None], default=0)
    kinds = []
    last_cvals = [i for i in cval_idx if i + 1 >= len(chunks) or chunks[i + 1][0] != b"CVAL"]
    if cval_idx:
        kinds += ["cval"] * 4 + ["cval_extra"]
    if opt_idx:
        kinds += ["opt"]
    if link_idx:
        kinds += ["link"] * 2
    # SLNK chunks with their SLnK partner (same module section), for entry-copying mutations
    link_pairs = []
    for i in link_idx:
        if chunks[i][0] == b"SLNK" and len(chunks[i][1]) >= 4:
            partner = None
            for j in range(i + 1, len(chunks)):
                if chunks[j][0] == b"SEND":
                    break
                if chunks[j][0] == b"SLnK":
                    partner = j
                    break
            link_pairs.append((i, partner))
    if link_pairs:
        kinds += ["link_copy"] * 2
    if pdta_idx:
        kinds += ["pdta"]
    if not kinds:
        return []
    muts = []
    for _ in range(draw(st.integers(1, 4))):
        k = draw(st.sampled_from(kinds))
        if k == "cval_extra":
            if any(mu[0] == "cval_extra" for mu in muts):
                continue
            muts.append(["cval_extra", draw(st.sampled_from(last_cvals)), draw(st.lists(st.integers(-300, 70000), min_size=1, max_size=4))])
            continue
        if k == "cval":
            i = draw(st.sampled_from(cval_idx))
            m, ordinal = info[i]
            t = types.get(m)
            c = spec[t].controllers[ordinal] if t in spec and ordinal < len(spec[t].controllers) else None
            if c is None:
                continue
            if c.kind == "enum":
                v = draw(st.sampled_from(sorted(c.members.values())))
                muts.append(["cval", i, v, "enum"])
            elif c.kind == "bool":
                v = draw(st.sampled_from([0, 1, 2, 255, -1, 2**31 - 1]))
                muts.append(["cval", i, v, "bool"])
            else:
                if c.kind == "dependent":
                    lo, hi = min(r[0] for r in c.ranges.values()), max(r[1] for r in c.ranges.values())
                else:
                    lo, hi = c.min, c.max
                raw_lo, raw_hi = (0, hi - lo) if (lo < 0 and c.kind != "no_offset") else (lo, hi)
                v = draw(
                    st.one_of(
                        st.sampled_from([raw_lo - 1, raw_hi + 1, raw_hi + 44, raw_hi * 2 + 3, -1, -129, 2**31 - 1, -(2**31), 65536]),
                        st.integers(-(2**31), 2**31 - 1),
                        st.integers(raw_lo, raw_hi),
                    )
                )
                oor = not (raw_lo <= v <= raw_hi)
                muts.append(["cval", i, v, ("oor_neg" if lo < 0 else "oor") if oor else "in"])
        elif k == "opt":
            i = draw(st.sampled_from(opt_idx))
            ln = len(chunks[i][1])
            if draw(st.booleans()):
                b = draw(st.binary(min_size=max(1, ln - 2), max_size=min(64, ln + 2)))
            else:
                # structured: everything off except one option's field (each single option in turn is an
                # edge case of the record: inverted options, exclusive pairs, multi-bit fields at their top)
                t = types.get(info[i][0])
                o = draw(st.sampled_from(spec[t].options))
                v = draw(st.sampled_from(sorted({1, (1 << o.size) - 1})))
                o2 = draw(st.sampled_from(spec[t].options)) if draw(st.booleans()) else None
                bm = bytearray(max(ln, o.byte + 1, (o2.byte + 1) if o2 is not None else 0))
                bm[o.byte] = (v << o.bit) & 0xFF
                if o2 is not None:
                    bm[o2.byte] |= (1 << o2.bit) & 0xFF
                b = bytes(bm)
            muts.append(["opt", i, b.hex()])
        elif k == "link":
            i = draw(st.sampled_from(link_idx))
            cnt = len(chunks[i][1]) // 4
            j = draw(st.integers(0, cnt - 1))
            if chunks[i][0] == b"SLNK":
                v = draw(st.one_of(st.just(-1), st.integers(0, max(0, n_mods - 1))))
            else:
                v = draw(st.one_of(st.just(-1), st.integers(0, 6)))
            muts.append(["link", i, j, v])
        elif k == "link_copy":
            # the same connection stored twice: entry `src` of SLNK (and of SLnK, when the module has one)
            # copied over entry `dst`, or appended at the end
            i, partner = draw(st.sampled_from(link_pairs))
            cnt = len(chunks[i][1]) // 4
            src = draw(st.integers(0, cnt - 1))
            dst = draw(st.one_of(st.just(cnt), st.integers(0, cnt)))
            muts.append(["link_copy", i, partner, src, dst])
        elif k == "pdta":
            i = draw(st.sampled_from(pdta_idx))
            ncell = len(chunks[i][1]) // 8
            j = draw(st.integers(0, ncell - 1))
            c = draw(build.cell)
            muts.append(["pdta", i, j, c])
    return muts


def apply_mutations(chunks, muts):
    out = list(chunks)
    extras = []
    for mu in muts:
        if mu[0] == "cval_extra":
            # controller values beyond those this library knows for the module type (a file from a newer SunVox)
            extras.append((mu[1], mu[2]))
        elif mu[0] == "cval":
            out[mu[1]] = (b"CVAL", struct.pack("<i", mu[2]))
        elif mu[0] == "opt":
            out[mu[1]] = (b"CHDT", bytes.fromhex(mu[2]))
        elif mu[0] == "link":
            cid, p = out[mu[1]]
            vals = list(struct.unpack("<%di" % (len(p) // 4), p))
            vals[mu[2]] = mu[3]
            out[mu[1]] = (cid, struct.pack("<%di" % len(vals), *vals))
        elif mu[0] == "link_copy":
            for ci in (mu[1], mu[2]):
                if ci is None:
                    continue
                cid, p = out[ci]
                vals = list(struct.unpack("<%di" % (len(p) // 4), p))
                if mu[3] >= len(vals):
                    continue
                if mu[4] >= len(vals):
                    vals.append(vals[mu[3]])
                else:
                    vals[mu[4]] = vals[mu[3]]
                out[ci] = (cid, struct.pack("<%di" % len(vals), *vals))
        elif mu[0] == "pdta":
            cid, p = out[mu[1]]
            b = bytearray(p)
            b[mu[2] * 8 : mu[2] * 8 + 8] = struct.pack("<BBHHH", *mu[3])
            out[mu[1]] = (cid, bytes(b))
    for i, vals in sorted(extras, reverse=True):
        out[i + 1 : i + 1] = [(b"CVAL", struct.pack("<i", v)) for v in vals]
    return chunktools.build(out)


@st.composite
def mutant_case(draw):
    files = fixture_files()
    src = draw(st.sampled_from(["fixture", "fixture", "project", "synth", "meta"]))
    if src == "fixture":
        base = {"src": "fixture", "file": os.path.relpath(draw(st.sampled_from(files)), os.path.join(REPO, "tests", "files"))}
        with open(os.path.join(REPO, "tests", "files", base["file"]), "rb") as f:
            data = f.read()
    elif src == "project":
        spec = draw(build.project_spec(depth=1, max_modules=4, max_patterns=2, top=True))
        base = {"src": "project", "spec": spec}
        data = build.make_project(spec).read()
    elif src == "meta":
        # MetaModules whose user-defined controllers are mapped onto embedded controllers of every kind
        # (negative minimum, enum, unit dependent, an inner MetaModule's own user controllers) and hold values
        from checks import c15
        from rv.api import Synth

        ms = draw(c15.meta_spec(draw(st.integers(1, 2)), in_project=False))
        base = {"src": "meta", "spec": ms}
        data = Synth(c15.build_meta(ms)).read()
    else:
        ms = draw(build.module_spec(in_project=False, depth=1))
        base = {"src": "synth", "spec": ms}
        from rv.api import Synth

        data = Synth(build.make_module(ms)).read()
    chunks = chunktools.parse(data)
    muts = draw(st.one_of(st.just([]), mutation_list(chunks), mutation_list(chunks)))
    base["mutations"] = muts
    return base


def bytes_of_case(case):
    from rv.api import Synth

    if case["src"] == "fixture":
        with open(os.path.join(REPO, "tests", "files", case["file"]), "rb") as f:
            data = f.read()
    elif case["src"] == "project":
        data = build.make_project(case["spec"]).read()
    elif case["src"] == "meta":
        from checks import c15

        data = Synth(c15.build_meta(case["spec"])).read()
    else:
        data = Synth(build.make_module(case["spec"])).read()
    if case["mutations"]:
        data = apply_mutations(chunktools.parse(data), case["mutations"])
    return data


def case_labels(case):
    labels = set()
    labels.add({"fixture": "fixture", "project": "generated_project", "synth": "generated_synth", "meta": "generated_metamodule"}[case["src"]])
    if case["src"] == "meta":
        spec = specmodel.load()
        inner = case["spec"]["payload"]["project"]["modules"]
        for _i, mi, ci in case["spec"]["payload"].get("mappings", []):
            if 1 <= mi <= len(inner) and inner[mi - 1] and ci < len(spec[inner[mi - 1]["type"]].controllers):
                c = spec[inner[mi - 1]["type"]].controllers[ci]
                if c.kind in ("range", "compact") and c.min < 0:
                    labels.add("user_controller_mapped_to_negative_min")
    for mu in case["mutations"]:
        if mu[0] == "cval":
            if mu[3] in ("oor", "oor_neg"):
                labels.add("cval_out_of_range")
            if mu[3] == "oor_neg":
                labels.add("cval_neg_min_out_of_range")
            if mu[3] == "bool":
                labels.add("cval_bool_wide")
        elif mu[0] == "link_copy":
            labels.add("link_stored_twice" + ("_with_slots" if mu[2] is not None else ""))
        elif mu[0] == "opt":
            labels.add("option_bytes")
        elif mu[0] == "link":
            labels.add("link_mutation")
        elif mu[0] == "pdta":
            labels.add("pdta_mutation")
    if case["src"] == "project" and any(op == "d" for op, _, _ in case["spec"]["links"]):
        labels.add("freed_link_slot")
    return labels


def run_shard(ctx, desc):
    cycles = 3 if ctx.tier == "quick" else 5
    if desc["kind"] == "fixtures":
        for f in fixture_files():
            ctx.case()
            rel = os.path.relpath(f, os.path.join(REPO, "tests", "files"))
            with open(f, "rb") as fh:
                data = fh.read()
            try:
                r = stability(data, cycles, rel)
                ctx.check(r == "ok", "C05.fixture_loads", "%s does not load" % rel, recipe={"case": {"src": "fixture", "file": rel, "mutations": []}})
            except PropertyViolation as v:
                ctx.check(False, v.sub_oracle, v.detail, key=v.key, recipe={"case": {"src": "fixture", "file": rel, "mutations": []}})
            ctx.label("fixture")
            ctx.mark_nontrivial(["fixture", rel])
        ctx.sample({"src": "all fixtures", "count": len(fixture_files()), "cycles": cycles})
        return
    if desc["kind"] == "link_states":
        # every history of three connect / disconnect requests over four pairs of a small project:
        # saving never changes the raw link tables (trailing freed slots included), two saves agree, and
        # the file is stable from the second generation on
        import itertools

        from rv.api import Project, m

        pairs = [(1, 2), (1, 3), (2, 3), (1, 0)]
        ops = [(a, b, dis) for a, b in pairs for dis in (False, True)]
        n = 0
        for hist in itertools.product(ops, repeat=3):
            p = Project()
            for cls in (m.Amplifier, m.MetaModule, m.Generator):
                p.new_module(cls)
            for a, b, dis in hist:
                if dis:
                    p.modules[a] >> ~p.modules[b]
                else:
                    p.modules[a] >> p.modules[b]
            raw0 = raw_tables(p)
            y = p.read()
            ctx.case()
            rec = {"case": {"src": "link_history", "history": [list(h) for h in hist], "mutations": []}}
            if not ctx.check(raw_tables(p) == raw0, "C05.save_is_pure.links", "history %r: saving changed the link tables in place: %r -> %r" % (hist, raw0, raw_tables(p)), key="C05.save_is_pure.links", recipe=rec):
                continue
            ctx.check(p.read() == y, "C05.save_deterministic", "history %r: two saves differ" % (hist,), recipe=rec)
            if n % 16 == 0:
                try:
                    stability(y, 2, "link history %r" % (hist,))
                except PropertyViolation as vio:
                    ctx.check(False, vio.sub_oracle, vio.detail, key=vio.key, recipe=rec)
            n += 1
            if any(d for _, _, d in hist):
                ctx.mark_nontrivial(["link_history", [list(h) for h in hist]])
        ctx.label("link_states")
        ctx.sample({"src": "link_states", "histories": n})
        return
    if desc["kind"] == "fixture_option_sweep":
        # every options record found in the fixtures, rewritten so that exactly one option's field is set
        # (each option in turn, at 1 and at its top value), everything else off - and once all zeros
        spec = specmodel.load()
        for f in desc["files"]:
            rel = os.path.relpath(f, os.path.join(REPO, "tests", "files"))
            with open(f, "rb") as fh:
                chunks = chunktools.parse(fh.read())
            info, types = section_info(chunks)
            n = 0
            for i, (cid, payload) in enumerate(chunks):
                if not (cid == b"CHDT" and i > 0 and chunks[i - 1][0] == b"CHNM"):
                    continue
                t = types.get(info[i][0])
                if t not in spec or not spec[t].options or struct.unpack("<I", chunks[i - 1][1])[0] != spec[t].options_chnm:
                    continue
                patterns = [bytes(len(payload))]
                for o in spec[t].options:
                    for v in sorted({1, (1 << o.size) - 1}):
                        bm = bytearray(max(len(payload), o.byte + 1))
                        bm[o.byte] = (v << o.bit) & 0xFF
                        patterns.append(bytes(bm))
                for b in patterns:
                    ctx.case()
                    case = {"src": "fixture", "file": rel, "mutations": [["opt", i, b.hex()]]}
                    try:
                        r = stability(apply_mutations(chunks, case["mutations"]), 2, rel)
                        if r == "unloadable":
                            ctx.label("unloadable")
                    except PropertyViolation as vio:
                        ctx.check(False, vio.sub_oracle, vio.detail, key=vio.key, recipe={"case": case})
                    n += 1
                    ctx.mark_nontrivial(case)
            if n:
                ctx.label("fixture_option_sweep")
                ctx.sample({"src": "fixture_option_sweep", "file": rel, "mutants": n})
        return
    if desc["kind"] == "fixture_cval_sweep":
        spec = specmodel.load()
        for f in desc["files"]:
            rel = os.path.relpath(f, os.path.join(REPO, "tests", "files"))
            with open(f, "rb") as fh:
                chunks = chunktools.parse(fh.read())
            info, types = section_info(chunks)
            n = 0
            for i, (m, ordinal) in enumerate(info):
                if ordinal is None:
                    continue
                t = types.get(m)
                c = spec[t].controllers[ordinal] if t in spec and ordinal < len(spec[t].controllers) else None
                if c is None or c.kind in ("enum",):
                    continue
                if c.kind == "bool":
                    vals = [0, 1, 2, -1]
                else:
                    lo, hi = (c.min, c.max) if c.kind != "dependent" else (min(r[0] for r in c.ranges.values()), max(r[1] for r in c.ranges.values()))
                    rlo, rhi = (0, hi - lo) if (lo < 0 and c.kind != "no_offset") else (lo, hi)
                    vals = [rlo - 1, rlo, rhi, rhi + 1, rhi + 300, -(2**31)]
                for v in vals:
                    ctx.case()
                    case = {"src": "fixture", "file": rel, "mutations": [["cval", i, v, "sweep"]]}
                    try:
                        r = stability(apply_mutations(chunks, case["mutations"]), cycles, rel)
                        if r == "unloadable":
                            ctx.label("unloadable")
                    except PropertyViolation as vio:
                        ctx.check(False, vio.sub_oracle, vio.detail, key=vio.key, recipe={"case": case})
                    n += 1
                    ctx.mark_nontrivial(case)
            ctx.label("fixture_cval_sweep")
            ctx.sample({"src": "fixture_cval_sweep", "file": rel, "mutants": n})
        return

    if desc["kind"] == "surplus_cvals":
        for f in desc["files"]:
            rel = os.path.relpath(f, os.path.join(REPO, "tests", "files"))
            with open(f, "rb") as fh:
                chunks = chunktools.parse(fh.read())
            last = [i for i, (cid, _) in enumerate(chunks) if cid == b"CVAL" and (i + 1 >= len(chunks) or chunks[i + 1][0] != b"CVAL")]
            for i in last[:2] + last[-1:]:
                ctx.case()
                case = {"src": "fixture", "file": rel, "mutations": [["cval_extra", i, [7, 1, 300]]]}
                try:
                    r = stability(apply_mutations(chunks, case["mutations"]), cycles, rel)
                    if r == "unloadable":
                        ctx.label("unloadable")
                    else:
                        ctx.mark_nontrivial(case)
                except PropertyViolation as vio:
                    ctx.check(False, vio.sub_oracle, vio.detail, key=vio.key, recipe={"case": case})
            ctx.label("surplus_controller_values")
        ctx.sample({"src": "surplus_cvals", "files": len(desc["files"])})
        return

    if desc["kind"] == "sampler_record_grid":
        # Samplers whose instrument record carries each of the few format-version values SunVox has written
        for fields, spec in build.sampler_record_grid_specs():
            case = {"src": "synth", "spec": spec, "mutations": []}
            ctx.case()
            try:
                constructed_purity(case)
                r = stability(bytes_of_case(case), cycles, "synth")
                ctx.check(r == "ok", "C05.unmutated_loads", "a Sampler with %r does not load" % fields, recipe={"case": case})
                ctx.mark_nontrivial(case)
            except PropertyViolation as v:
                ctx.check(False, v.sub_oracle, "Sampler with %r: %s" % (fields, v.detail), key=v.key, recipe={"case": case})
        ctx.label("sampler_record_grid")
        ctx.sample({"src": "sampler_record_grid", "grid": build.SAMPLER_RECORD_GRID})
        return

    def body(case):
        ctx.case()
        if not case["mutations"]:
            constructed_purity(case)
        data = bytes_of_case(case)
        r = stability(data, cycles, case["src"])
        labels = case_labels(case)
        if r == "unloadable":
            ctx.label("unloadable")
            if not case["mutations"]:
                raise PropertyViolation("C05.unmutated_loads", "an unmutated %s file does not load" % case["src"])
            return
        ctx.label(*labels)
        ctx.label("loadable")
        if labels & {"cval_out_of_range", "freed_link_slot", "option_bytes", "link_mutation"}:
            ctx.mark_nontrivial(case)
        if len(repr(case)) < 1500:
            ctx.sample(case)

    run_property(ctx, mutant_case(), body, desc["examples"], tag="mutants", bucket="file")


def replay(ctx, doc):
    case = doc["recipe"]["case"]
    if case.get("src") == "link_history":
        from rv.api import Project, m

        p = Project()
        for cls in (m.Amplifier, m.MetaModule, m.Generator):
            p.new_module(cls)
        for a, b, dis in case["history"]:
            if dis:
                p.modules[a] >> ~p.modules[b]
            else:
                p.modules[a] >> p.modules[b]
        raw0 = raw_tables(p)
        y = p.read()
        if raw_tables(p) != raw0:
            raise PropertyViolation("C05.save_is_pure.links", "saving changed the link tables in place: %r -> %r" % (raw0, raw_tables(p)), "C05.save_is_pure.links")
        if p.read() != y:
            raise PropertyViolation("C05.save_deterministic", "two saves differ")
        stability(y, 3, "link history")
        return
    r = stability(bytes_of_case(case), 5, case["src"])
    if r == "unloadable" and not case["mutations"]:
        raise PropertyViolation("C05.unmutated_loads", "file does not load")
