"""C01 - project save/load round trip preserves the whole project."""

from __future__ import annotations

from io import BytesIO

from vlib import iovariants, build, snapshot
from vlib.harness import PropertyViolation, run_property

PROPERTY_ID = "C01"
LEVEL = "exploration"
RULE = (
    "Hypothesis generates project recipes: project fields within their documented widths, 0..8 (quick) / 0..24 (thorough) modules of any of the "
    "42 attachable types built as in C02 (attached through attach_module / += / += [list]), connect/disconnect operations, patterns / clones / "
    "empty pattern slots with note cells (thorough: a few patterns of up to 32 tracks x 2048 lines), Unicode names (incl. names whose UTF-8 form straddles byte 32), MetaModules with embedded projects (a dedicated family nests them 2-4 levels deep), "
    "Samplers with samples; a second family blanks generated module positions in the saved bytes, reloads and continues (interior empty "
    "positions, gap filling); half of the cases continue on the same, already saved project with more API calls (new modules, edits of existing modules, links, patterns, fields) and are saved and compared again. Oracle: write_to(stream) == read(), loading from a str path / pathlib.Path == loading from a stream, bytes load without error, snapshot(loaded) == snapshot(original), module index/parent and pattern owner "
    "identities hold, and re-saving the loaded project is stable from the second generation on. distinct = recipe hash; non-trivial = >= 2 non-Output modules, or a "
    "non-default controller/option/payload, or a pattern with a non-empty cell, or a long name"
    " Also (added while the seeded-change rounds of DESIGN section 9 ran): Recipes also draw: the SunVox version the file is written as, the order of a module's groups of assignments, mappings at and beyond the user-controller count, trailing empty positions, chains of pattern clones, MultiCtl.macro modules (with and without name), tricky / long / default-looking texts, format byte patterns inside data, samples of 64 KiB and 1 MiB; a family of projects with more than 255 modules; every fourth case has a failed save in its past; what write_to writes into streams, real files (w / a / r+), compressing files, and what copy.deepcopy / pickle copies and Project.clone() write or hold is compared too."
)
RULE += " Rounds 12-14 of DESIGN section 9 added: loading also through gzip / bz2 / lzma file objects."
ASSUMPTIONS = [
    "equality is on vlib.snapshot's public-attribute snapshot with its documented normalisations (module names cut to 32 UTF-8 bytes, "
    "trailing empty module positions and trailing freed link slots dropped, flags OR default flags, midi_out_name '' == None)",
    "sunvox_version (the version the file is written as) is drawn too; it is not itself compared after loading (a loaded project carries the library's own version), and for versions before 1.9.5.0 the documented reader rule - module columns of pattern cells are 8 bits - is applied to the expected state",
]
REQUIRED_LABELS = {
    "quick": ["gap", "clone", "empty_pattern_slot", "name_straddles_32", "links", "freed_link_slot", "cells", "project_fields", "second_stage", "metamodule_nested_2_levels", "project_with_more_than_255_modules", "chunk_payload_of_64KiB_or_more", "macro_multictl_without_name"],
    "thorough": ["gap", "clone", "empty_pattern_slot", "name_straddles_32", "links", "freed_link_slot", "cells", "project_fields", "metamodule", "sampler_with_samples", "unit_changed"]
    + ["type_" + t for t in build.attachable_types()],
}


def exhaustive(tier):
    return False


def plan(tier):
    n, per = (16, 150) if tier == "quick" else (16, 2500)
    from vlib import subproc

    names = [v for v in sorted(subproc.VARIANTS) if v != "plain"]
    return [{"kind": "random", "examples": per, "max_modules": 8 if tier == "quick" else 24, "big_payloads": i == 0} for i in range(n)] + [{"kind": "interpreters", "variants": names[i::2]} for i in range(2)]


def project_labels(spec):
    labels = set()
    for ms in spec["modules"] + spec.get("extra_modules", []):
        labels |= build.module_labels(ms)
    if spec.get("blank"):
        labels.add("gap")
    if spec.get("macros"):
        labels.add("macro_multictl")
        if any(mc.get("name") is None for mc in spec["macros"]):
            labels.add("macro_multictl_without_name")
    for ps in spec["patterns"]:
        if ps is None:
            labels.add("empty_pattern_slot")
        elif ps["kind"] == "clone":
            labels.add("clone")
        elif ps.get("cells"):
            if any(any(c[2]) for c in ps["cells"]):
                labels.add("cells")
    if spec["links"]:
        labels.add("links")
        if any(op == "d" for op, _, _ in spec["links"]):
            labels.add("freed_link_slot")
    if spec["fields"]:
        labels.add("project_fields")
    if spec.get("then"):
        labels.add("second_stage")
    return labels


def nontrivial(spec, labels):
    return len(spec["modules"]) >= 2 or bool(labels & {"ctl_at_range_end", "payload_nondefault", "options_set", "cells", "long_name", "neg_min_ctl_at_min", "cmid_set"})


def check_identities(q, where):
    from rv.modules.output import Output

    for i, m in enumerate(q.modules):
        if m is None:
            continue
        if m.index != i:
            raise PropertyViolation("C01.identity.index", "%s: modules[%d].index == %r" % (where, i, m.index))
        if m.parent is not q:
            raise PropertyViolation("C01.identity.parent", "%s: modules[%d].parent is not the project" % (where, i))
    if not q.modules or not isinstance(q.modules[0], Output) or q.output is not q.modules[0]:
        raise PropertyViolation("C01.identity.output", "%s: position 0 does not hold the project's output module" % where)
    for i, pat in enumerate(q.patterns):
        if pat is not None and pat.project is not q:
            raise PropertyViolation("C01.identity.pattern_owner", "%s: patterns[%d].project is not the project" % (where, i))


def raw_link_tables(p):
    return [None if m is None else [list(m.in_links), list(m.in_link_slots), list(m.out_links), list(m.out_link_slots)] for m in p.modules]


def check_project_spec(ctx, spec):
    from rv.api import read_sunvox_file

    p = build.make_project(spec)
    # expected layout: spec modules at 1..n, blanked positions empty, later modules fill the lowest gaps
    layout = ["Output"] + [ms["type"] for ms in spec["modules"]] + [None] * (spec.get("trailing_empty", 0) if not spec.get("blank") else 0)
    for i in spec.get("blank", []):
        layout[i] = None
    if spec.get("blank"):
        while layout and layout[-1] is None:
            layout.pop()
    for ms in spec.get("extra_modules", []):
        if None in layout:
            layout[layout.index(None)] = ms["type"]
        else:
            layout.append(ms["type"])
    got_layout = [None if m is None else type(m).__name__ for m in p.modules]
    if spec.get("macros"):
        # modules the macro helper added take the lowest empty positions / the end like any other module
        for extra in got_layout[len([x for x in layout]) :] if len(got_layout) > len(layout) else []:
            layout.append("MultiCtl")
        for i, t in enumerate(layout):
            if t is None and i < len(got_layout) and got_layout[i] == "MultiCtl":
                layout[i] = "MultiCtl"
    if got_layout != layout:
        raise PropertyViolation("C01.positions", "module positions are %r, expected %r" % (got_layout, layout))
    if len(repr(spec)) % 4 == 0 and build.failed_save_in_past(p, len(repr(spec))):
        ctx.label("failed_save_in_the_past")
    s0 = snapshot.snap_project(p)
    raw0 = raw_link_tables(p)
    data = p.read()
    if raw_link_tables(p) != raw0:
        raise PropertyViolation("C01.save_is_pure.links", "saving changed the link tables in place: %r -> %r" % (raw0, raw_link_tables(p)))
    s0b = snapshot.snap_project(p)
    d = snapshot.diff(s0, s0b)
    if d:
        raise PropertyViolation("C01.save_is_pure", "saving changed the project: %r" % (d[:3],))
    q = read_sunvox_file(BytesIO(data))
    if type(q).__name__ != "Project":
        raise PropertyViolation("C01.loads", "loading the saved bytes gave %r" % type(q).__name__)
    s1 = snapshot.snap_project(q)
    d = snapshot.diff(s0, s1)
    if d:
        first = d[0][0]
        parts = first.split("/")
        area = "/".join(p_ for p_ in parts[1:4] if not p_.isdigit())
        raise PropertyViolation("C01.roundtrip", "; ".join("%s: %r -> %r" % x for x in d[:4]), key="C01.roundtrip:" + area)
    check_identities(q, "loaded")
    check_identities(p, "original")
    # the other ways of writing / reading the same file
    iovariants.writers_agree(p, data, "C01")
    iovariants.loaders_agree(data, s1, snapshot.snap_project, "C01", ".sunvox")
    iovariants.clone_agrees(p, s1, snapshot.snap_project, "C01")
    # second stage on the same in-memory project: it has been saved already; more API calls follow
    # (more modules, links, patterns, field assignments, edits of existing modules) and the project
    # must still save exactly what it holds
    then = spec.get("then")
    if then:
        for k, v in then.get("fields", {}).items():
            setattr(p, k, tuple(v) if k == "based_on_version" else v)
        for ms in then.get("modules", []):
            p.attach_module(build.make_module(ms))
        for i, ms in then.get("edits", []):
            live = [m for m in p.modules if m is not None and type(m).__name__ == ms["type"]]
            if live:
                build.apply_spec(live[i % len(live)], dict(ms, _ctor_as_sets=True))
        for ps in then.get("patterns", []):
            p.attach_pattern(build.make_pattern(ps))
        build.apply_links(p, then)
        t0 = snapshot.snap_project(p)
        q2 = read_sunvox_file(BytesIO(p.read()))
        d = snapshot.diff(t0, snapshot.snap_project(q2))
        if d:
            raise PropertyViolation("C01.second_stage", "project edited after it had been saved once: %s" % "; ".join("%s: %r -> %r" % x for x in d[:4]), key="C01.second_stage:" + "/".join(s_ for s_ in d[0][0].split("/")[1:4] if not s_.isdigit()))
        check_identities(q2, "second stage")
    # a third generation must be stable (C05's rule, cheap to re-check here):
    # Y = save(load(X)) and save(load(Y)) == Y.  save(constructed) itself may differ from Y
    # (e.g. trailing freed link slots are dropped on load).
    y = q.read()
    y2 = read_sunvox_file(BytesIO(y)).read()
    if y2 != y:
        raise PropertyViolation("C01.resave_stable", "save(load(Y)) != Y for Y = save(load(saved project)) (%d vs %d bytes)" % (len(y2), len(y)))


from hypothesis import strategies as _st


@_st.composite
def spec_with_second_stage(draw, depth, max_modules):
    spec = draw(build.project_spec(depth=depth, max_modules=max_modules, max_patterns=4, top=True))
    if draw(_st.booleans()):
        then = draw(build.project_spec(depth=0, max_modules=2, max_patterns=2, light=True))
        present = sorted({ms["type"] for ms in spec["modules"]})
        then["edits"] = []
        if present:
            for _ in range(draw(_st.integers(0, 2))):
                t = draw(_st.sampled_from(present))
                then["edits"].append([draw(_st.integers(0, 5)), draw(build.module_spec(in_project=True, depth=0 if t in ("MetaModule", "Sampler") else 1, tname=t))])
        spec["then"] = then
    return spec


def fixed_roundtrip_digests():
    """Save / load digests of a few fixed projects (all payload-bearing module types, a MetaModule, a Sampler
    with samples and effect, links, patterns): {name: digest of the file + digest of the loaded state}"""
    import hashlib
    import json

    from checks import c05
    from rv.api import read_sunvox_file
    from vlib.harness import jsonable

    out = {}
    projects = {"mixed": c05.other_project()}
    for i, ms in enumerate(build.big_payload_module_specs()[:1] + [{"type": t, "common": {}, "sets": [], "options": [], "cmid": [], "payload": {}} for t in ("SpectraVoice", "MultiSynth", "Fmx", "WaveShaper", "VorbisPlayer", "Sound2Ctl", "Lfo")]):
        projects["%d_%s" % (i, ms["type"])] = build.make_project({"modules": [ms], "patterns": [], "fields": {}, "links": [["c", 1, 0]]})
    for name, p in projects.items():
        try:
            data = p.read()
            q = read_sunvox_file(BytesIO(data))
            out[name] = hashlib.sha256(data).hexdigest()[:16] + ":" + hashlib.sha256(json.dumps(jsonable(snapshot.snap_project(q)), sort_keys=True).encode()).hexdigest()[:16]
        except Exception as e:  # noqa: BLE001
            out[name] = "raised %s: %s" % (type(e).__name__, str(e)[:80])
    return out


def run_interpreters(ctx, desc):
    """The round trip does not depend on how the interpreter was started (python -O, -OO, -W error, -X dev,
    C locale, other first imports, logging opened before the import)."""
    from vlib import subproc

    here = fixed_roundtrip_digests()
    body = "from checks import c01\nimport logging\nlogging.disable(logging.CRITICAL)\nRESULT = c01.fixed_roundtrip_digests()\n"
    for v in desc["variants"]:
        res = subproc.run(v, body)
        rec = {"op": "interpreter", "variant": v}
        ctx.case(len(here))
        if res.get("__failed__"):
            ctx.check(False, "C01.interpreter.fails", "round trips in a fresh interpreter (%s) failed: rc=%r %s" % (v, res.get("returncode"), (res.get("stderr") or "")[-400:]), key="C01.interpreter:" + v, recipe=rec)
            continue
        bad = sorted(k for k in here if res.get(k) != here[k])
        ctx.check(not bad, "C01.interpreter.differs", "in an interpreter started as %r the round trip of %r gives %r, here %r" % (v, bad[:1], res.get(bad[0]) if bad else None, here.get(bad[0]) if bad else None), key="C01.interpreter:" + v, recipe=rec)
        ctx.label("interpreter_" + v)
        ctx.mark_nontrivial(rec)


def run_shard(ctx, desc):
    if desc.get("kind") == "interpreters":
        run_interpreters(ctx, desc)
        return
    depth = 1 if ctx.tier == "quick" else 2
    build.BIG_PATTERNS["on"] = ctx.tier == "thorough"

    def body(spec):
        ctx.case()
        check_project_spec(ctx, spec)
        labels = project_labels(spec)
        ctx.label(*labels)
        if nontrivial(spec, labels):
            ctx.mark_nontrivial(spec)
        if len(repr(spec)) < 2500:
            ctx.sample(spec)

    # projects that hold containers nested several levels deep (MetaModule in MetaModule in ...)
    @_st.composite
    def deep(draw):
        spec = draw(build.project_spec(depth=0, max_modules=3, max_patterns=1, top=True))
        spec["modules"].append(draw(build.nested_meta(max_levels=4)))
        return spec

    # a song with more than 256 modules: links, notes and gaps at positions that need more than 8 bits
    @_st.composite
    def big(draw):
        spec = draw(build.project_spec(depth=0, max_modules=3, max_patterns=1, top=True))
        spec = {k: v for k, v in spec.items() if k not in ("blank", "extra_modules", "then")}
        n0 = len(spec["modules"])
        filler = {"type": "Amplifier", "common": {}, "sets": [], "options": [], "cmid": [], "payload": {}}
        total = draw(_st.sampled_from([255, 256, 257, 300]))
        spec["modules"] = spec["modules"] + [dict(filler) for _ in range(total - n0)]
        hi = _st.integers(max(1, total - 50), total)
        spec["links"] = list(spec.get("links", [])) + [[draw(_st.sampled_from(["c", "c", "d"])), draw(hi), draw(_st.one_of(hi, _st.just(0)))] for _ in range(draw(_st.integers(2, 10)))]
        spec["patterns"] = list(spec["patterns"]) + [{"kind": "pattern", "tracks": 2, "lines": 2, "fields": {}, "cells": [[0, 0, [1, 0, draw(hi) + 1, 0, 0]], [1, 1, [0, 0, 0xFFFF, 0, 0]]]}]
        return spec

    def body_big(spec):
        body(spec)
        ctx.label("project_with_more_than_255_modules")

    if desc.get("big_payloads"):
        for ms in build.big_payload_module_specs():
            body({"modules": [ms], "patterns": [], "fields": {}, "links": [["c", 1, 0]]})
            ctx.label("chunk_payload_of_64KiB_or_more")
    if not run_property(ctx, big(), body_big, 2 if ctx.tier == "quick" else 12, tag="big", bucket="project"):
        return

    def body_deep(spec):
        body(spec)
        ctx.label("metamodule_nested_%d_levels" % min(3, max(build.meta_depth(ms) for ms in spec["modules"])))

    if not run_property(ctx, deep(), body_deep, max(4, desc["examples"] // 12), tag="deep", bucket="project"):
        return
    run_property(ctx, spec_with_second_stage(depth, desc["max_modules"]), body, desc["examples"], tag="project", bucket="project")


def replay(ctx, doc):
    if doc["recipe"].get("op") == "interpreter":
        from vlib.harness import Ctx

        c2 = Ctx(ctx.prop, ctx.tier, ctx.seed, 0, 1, [])
        run_interpreters(c2, {"variants": [doc["recipe"]["variant"]]})
        if c2.failures:
            raise PropertyViolation(c2.failures[0]["sub_oracle"], c2.failures[0]["detail"], c2.failures[0]["key"])
        return
    check_project_spec(ctx, doc["recipe"]["case"])
