"""C18 - loading restores global strictness and releases files on every exit path."""

from __future__ import annotations

import glob
import os
import shutil
import struct
import tempfile
from io import BytesIO

from checks import c05
from vlib import chunktools, faults, specmodel
from vlib.harness import REPO, VERIF, HarnessError, PropertyViolation

PROPERTY_ID = "C18"
LEVEL = "fault_enumeration"
RULE = (
    "fault enumeration over every fixture under tests/files plus generated files with nested loads (MetaModule in MetaModule in a project, "
    "Sampler with an embedded effect, MetaModule holding a Sampler with effect; thorough: 24 more files from generated MetaModule / Sampler / project recipes): (a) clean load, (b) an OSError at read call k for every k "
    "(K counted on a clean run), (c) an exception at every chunk boundary j counted across nested loads, (d) truncation at every chunk "
    "boundary and at byte offsets inside headers/payloads, (e) semantic failures (unknown STYP, invalid enum CVAL), (f) path loads of files that are empty, shorter than a chunk header, not SunVox files at all, or cut short, (g) failing diagnostics: a logging handler on the rv logger that raises at the d-th record the load emits (D counted on a clean run) and warnings escalated to errors, on the file itself and on variants whose range controllers (top level and nested) are far out of range so that the lenient load really reports; each for the strictness "
    "flag initially True and False and through a stream and through a path. quick: (b),(c) complete for stream + flag True, every 7th point (plus the first four and the last) "
    "for the other three combinations, truncation at every chunk boundary; thorough: everything complete. distinct = (file, fault kind, "
    "position, flag, access); non-trivial = the injected fault fired and the load raised, or fired inside a nested load"
    " Also (added while the seeded-change rounds of DESIGN section 9 ran): Read failures rotate over 12 kinds (errno values, non-OSError exceptions, a BaseException); the process's open descriptors are compared before / after every load while the exception is held; the file is also named as bytes, os.DirEntry, an __fspath__ object, a pure path and a str subclass."
)
ASSUMPTIONS = [
    "files opened by the library from a path are observed by wrapping pathlib.Path.open from the check; chunk boundaries by wrapping rv.readers.reader.chunks",
    "diagnostics are made to fail the way a user-installed raising logging.Handler / `-W error` would; the check does not require that the library emits any",
    "nested loads are counted by wrapping the read_sunvox_file names imported into rv.modules.metamodule / rv.modules.sampler (the wrapper calls the original)",
]
# classes of cases that are produced deterministically: their absence is a harness error (see vlib.harness)
HARD_LABELS = ['read_fault_raised', 'chunk_fault_raised', 'truncated', 'path_access', 'flag_initially_false', 'named_as_direntry', 'warnings_as_errors']
REQUIRED_LABELS = {
    "quick": ["read_fault_raised", "chunk_fault_raised", "fault_in_nested_load", "truncated", "semantic_failure", "path_access", "flag_initially_false", "path_bad_file", "diagnostic_fault_raised", "warnings_as_errors", "lenient_load_with_out_of_range_values", "read_fault_kind_ESTALE", "read_fault_kind_InjectedBaseFault", "read_fault_kind_MemoryError", "named_as_direntry", "named_as_bytes"],
    "thorough": ["read_fault_raised", "chunk_fault_raised", "fault_in_nested_load", "truncated", "semantic_failure", "path_access", "flag_initially_false", "diagnostic_fault_raised", "warnings_as_errors", "lenient_load_with_out_of_range_values"],
}


def exhaustive(tier):
    return tier == "thorough"


def fixture_files():
    base = os.path.join(REPO, "tests", "files")
    fs = sorted(glob.glob(os.path.join(base, "**", "*.sunvox"), recursive=True) + glob.glob(os.path.join(base, "**", "*.sunsynth"), recursive=True))
    return fs


def plan(tier):
    files = fixture_files()
    items = [{"src": "fixture", "path": f, "size": os.path.getsize(f)} for f in files]
    items += [{"src": "generated", "name": n, "size": 20000} for n in ("meta_in_meta", "sampler_effect", "meta_sampler_effect", "meta_depth3", "meta_enum_mapped")]
    if tier == "thorough":
        # generated files with nested loads (recipes drawn with a pinned seed per item)
        items += [{"src": "recipe", "name": "recipe%02d" % i, "index": i, "size": 30000} for i in range(24)]
    items.sort(key=lambda x: -x["size"])
    n = 16
    shards = [{"kind": "files", "items": [], "w": 0} for _ in range(n)]
    for it in items:
        s = min(shards, key=lambda s: s["w"])
        s["items"].append(it)
        s["w"] += it["size"]
    return [s for s in shards if s["items"]]


def recipe_bytes(index, seed):
    """A generated MetaModule / Sampler / project file (recipe strategies of C02/C15/C16, seed pinned)."""
    import hypothesis
    from hypothesis import strategies as st
    from rv.api import Synth

    from checks import c15
    from vlib import build
    from vlib.harness import derive_seed, hsettings

    kind = index % 3
    if kind == 0:
        strat = c15.meta_spec(2, in_project=False)
    elif kind == 1:
        strat = build.module_spec(in_project=False, depth=2, tname="Sampler")
    else:
        strat = build.project_spec(depth=2, max_modules=4, max_patterns=2, types=["MetaModule", "Sampler", "Amplifier", "MultiSynth"])
    box = []

    @hypothesis.seed(derive_seed(seed, "C18", "recipe", index))
    @hsettings(1, shrink=False)
    @hypothesis.given(strat)
    def grab(x):
        box.append(x)

    grab()
    spec = box[-1]
    if kind == 0:
        return Synth(c15.build_meta(spec)).read()
    if kind == 1:
        return Synth(build.make_module(spec)).read()
    return build.make_project(spec).read()


def generated_bytes(name):
    from rv.api import Project, Synth, m

    def sampler_with_effect():
        s = m.Sampler()
        smp = s.Sample()
        smp.data = b"\x01\x02\x03\x04" * 8
        smp.format = s.Format.int8
        smp.channels = s.Channels.mono
        s.samples[0] = smp
        s.effect = Synth(m.Echo())
        return s

    if name == "sampler_effect":
        return Synth(sampler_with_effect()).read()
    if name == "meta_in_meta":
        inner = m.MetaModule()
        inner.project.new_module(m.Generator)
        outer = m.MetaModule()
        outer.project.attach_module(inner)
        p = Project()
        p.attach_module(outer)
        p.new_module(m.Amplifier) >> p.output
        return p.read()
    if name == "meta_sampler_effect":
        mm = m.MetaModule()
        mm.project.attach_module(sampler_with_effect())
        return Synth(mm).read()
    if name == "meta_enum_mapped":
        mm = m.MetaModule()
        mm.project.new_module(m.AnalogGenerator)
        mm.project.new_module(m.Amplifier)
        mm.mappings.values[0] = mm.Mapping((1, 1))  # AnalogGenerator.waveform (enum)
        mm.mappings.values[1] = mm.Mapping((2, 1))  # Amplifier.balance (negative minimum)
        mm.user_defined_controllers = 2
        p = Project()
        p.attach_module(mm)
        return p.read()
    if name == "meta_depth3":
        a = m.MetaModule()
        a.project.attach_module(sampler_with_effect())
        b = m.MetaModule()
        b.project.attach_module(a)
        c = m.MetaModule()
        c.project.attach_module(b)
        p = Project()
        p.attach_module(c)
        return p.read()
    raise AssertionError(name)


class Env:
    def __init__(self, ctx):
        self.ctx = ctx
        self.workdir = None

    def path_for(self, item, data):
        if item["src"] == "fixture":
            return item["path"]
        if self.workdir is None:
            os.makedirs(os.path.join(VERIF, ".work"), exist_ok=True)
            self.workdir = tempfile.mkdtemp(prefix="c18_", dir=os.path.join(VERIF, ".work"))
        p = os.path.join(self.workdir, item["name"] + ".bin")
        if not os.path.exists(p):
            with open(p, "wb") as f:
                f.write(data)
        return p

    def variant_path(self, item, name, data):
        if self.workdir is None:
            os.makedirs(os.path.join(VERIF, ".work"), exist_ok=True)
            self.workdir = tempfile.mkdtemp(prefix="c18_", dir=os.path.join(VERIF, ".work"))
        base = os.path.basename(item.get("path") or item.get("name"))
        p = os.path.join(self.workdir, "%s.%s.bin" % (base, name.replace("@", "_")))
        with open(p, "wb") as f:
            f.write(data)
        return p

    def cleanup(self):
        if self.workdir:
            shutil.rmtree(self.workdir, ignore_errors=True)


def open_fds():
    """(fd, target) of every descriptor this process has open."""
    out = []
    try:
        names = os.listdir("/proc/self/fd")
    except OSError:
        return out
    for n in names:
        try:
            out.append((int(n), os.readlink("/proc/self/fd/" + n)))
        except OSError:
            pass  # the descriptor used for listing
    return out


NAME_KINDS = ["bytes", "direntry", "pathlike", "purepath", "str_subclass"]


def other_name(path, kind):
    """The same file named in the other ways Python programs name files (the library may accept or reject them)."""
    import pathlib

    if kind == "bytes":
        return os.fsencode(path)
    if kind == "direntry":
        with os.scandir(os.path.dirname(path)) as it:
            for e in it:
                if e.name == os.path.basename(path):
                    return e
        raise HarnessError("file vanished: " + path)
    if kind == "pathlike":
        class P:
            def __init__(self, p):
                self.p = p

            def __fspath__(self):
                return self.p

        return P(path)
    if kind == "purepath":
        return pathlib.PurePosixPath(path)

    class S(str):
        pass

    return S(path)


def one_load(ctx, ident, data, path, access, flag0, fault):
    """Perform one load under one fault; check the post-conditions.  Returns (raised?, info)."""
    import rv.errors
    from rv.api import m, read_sunvox_file
    from rv.errors import ControllerValueError

    kind, pos = fault[0], fault[1]
    exc_index = fault[2] if len(fault) > 2 else ((pos or 0) + (0 if flag0 else 5) + (3 if access == "path" else 0))
    rv.errors.RAISE_CONTROLLER_VALUE_ERRORS = flag0
    rec = {"file": ident, "fault": kind, "position": pos, "flag_initially": flag0, "access": access, "exception": faults.FAULT_KINDS[exc_index % len(faults.FAULT_KINDS)][0] if kind == "read" else None, "exc_index": exc_index}
    raised = None
    tracker = faults.TrackedOpen(fail_at=pos if (kind == "read" and access == "path") else None, exc_index=exc_index)
    stream = None
    info = {}
    fds_before = open_fds()
    try:
        with tracker:
            with faults.counting_chunks(fail_at=pos if kind == "chunk" else None) as cstate, faults.failing_diagnostics(fail_at=pos if kind == "diag" else None, warnings_as_errors=(kind == "werror")) as dstate:
                try:
                    if access == "path":
                        # str and pathlib.Path spellings alternate
                        read_sunvox_file(__import__("pathlib").Path(path) if (pos or 0) % 2 else str(path))
                    elif access.startswith("name:"):
                        read_sunvox_file(other_name(path, access[5:]))
                    else:
                        src = data if kind != "truncate" else data[:pos]
                        stream = faults.FaultyFile(BytesIO(src), pos if kind == "read" else None, exc_index)
                        read_sunvox_file(stream)
                except BaseException as e:  # noqa: BLE001  (KeyboardInterrupt is not expected here)
                    if isinstance(e, (KeyboardInterrupt, SystemExit)):
                        raise  # a real interruption of the check itself, not an injected one
                    raised = e
            info["chunks"] = cstate["n"]
            info["diagnostics"] = dstate["n"]
            info["diag_fired"] = dstate["fired"]
            info["warnings"] = dstate["warnings"]
            info["chunk_fired"] = cstate["fired"]
            info["depth_at_fire"] = cstate["depth_at_fire"]
            info["nested_loads"] = cstate["nested_loads"]
            flag_after = rv.errors.RAISE_CONTROLLER_VALUE_ERRORS
            files_state = [(f.closed, f.reads, f.fired) for f in tracker.files]
            # descriptors of the process at the moment the call has returned / raised (the exception, if any,
            # is still held here): whatever the library opened itself, by whatever means, is closed again
            fds_after = open_fds()
        # the caller has handled and dropped the exception (its frames, suspended generators and
        # their pending clean-ups are finalised): the setting must still be what it was
        raised_name = type(raised).__name__ if raised is not None else None
        raised = raised_name  # keep only the name; the exception object itself is released
        e = None
        import gc

        if raised is not None:
            gc.collect(1)  # the exception, its traceback frames and anything suspended in them are young objects
        flag_later = rv.errors.RAISE_CONTROLLER_VALUE_ERRORS
    finally:
        rv.errors.RAISE_CONTROLLER_VALUE_ERRORS = True
    info["reads"] = (stream.reads if stream is not None else (files_state[0][1] if files_state else 0))
    info["read_fired"] = (stream.fired if stream is not None else any(f[2] for f in files_state))
    ctx.check(
        flag_after is flag0,
        "C18.flag_restored",
        "%s: flag was %r before the load and %r after (fault %s@%s, %s, raised=%r)" % (ident, flag0, flag_after, kind, pos, access, raised),
        key="C18.flag_restored",
        recipe=rec,
    )
    ctx.check(
        flag_later is flag0,
        "C18.flag_after_exception_released",
        "%s: flag was %r before the load, %r when the call ended and %r once the exception had been dropped (fault %s@%s, %s, raised=%r)" % (ident, flag0, flag_after, flag_later, kind, pos, access, raised),
        key="C18.flag_after_exception_released",
        recipe=rec,
    )
    leaked = sorted(set(fds_after) - set(fds_before))
    ctx.check(
        not leaked,
        "C18.descriptor_left_open",
        "%s: %d more file descriptor(s) are open when the call has %s than before it (%s; name given as %s)" % (ident, len(leaked), "raised " + str(raised) if raised else "returned", ", ".join(x[1] for x in leaked)[:200], access),
        key="C18.file_closed",
        recipe=rec,
    )
    if access == "path":
        ctx.check(len(files_state) >= 1, "C18.path_opened", "%s: library did not open the path through Path.open" % ident, recipe=rec)
        ctx.check(
            all(c for c, _, _ in files_state),
            "C18.file_closed",
            "%s: a file opened by the library is still open after the call (fault %s@%s, raised=%r)" % (ident, kind, pos, raised),
            key="C18.file_closed",
            recipe=rec,
        )
    elif access == "stream":
        ctx.check(len(files_state) == 0, "C18.stream_no_open", "%s: stream load opened a path" % ident, recipe=rec)
    # user-visible consequence: strict mode still rejects (when it was strict before)
    if flag0:
        rv.errors.RAISE_CONTROLLER_VALUE_ERRORS = flag_after
        try:
            amp = m.Amplifier()
            try:
                amp.volume = 99999
                ok = False
            except ControllerValueError:
                ok = True
        finally:
            rv.errors.RAISE_CONTROLLER_VALUE_ERRORS = True
        ctx.check(ok, "C18.strict_after_load", "%s: after the load an out-of-range assignment no longer raises (fault %s@%s)" % (ident, kind, pos), key="C18.strict_after_load", recipe=rec)
    return raised, info


def semantic_variants(data, depth=0):
    """(name, bytes) files that fail for semantic reasons inside the load."""
    chunks = chunktools.parse(data)
    out = []
    # the same failures inside nested containers (embedded project of a MetaModule, effect of a Sampler)
    if depth < 3:
        nested_done = 0
        for i, (cid, payload) in enumerate(chunks):
            if cid == b"CHDT" and payload[:4] in (b"SVOX", b"SSYN") and nested_done < 2:
                try:
                    inner = semantic_variants(payload, depth + 1)
                except Exception:  # noqa: BLE001
                    inner = []
                for name, vb in inner[:3]:
                    c2 = list(chunks)
                    c2[i] = (cid, vb)
                    out.append(("nested%d[%s]" % (i, name), chunktools.build(c2)))
                nested_done += 1
    for i, (cid, payload) in enumerate(chunks):
        if cid == b"STYP":
            c2 = list(chunks)
            c2[i] = (cid, b"No such module type\0")
            out.append(("unknown_styp@%d" % i, chunktools.build(c2)))
            break
    for i, (cid, payload) in enumerate(chunks):
        if cid == b"CMID" and len(payload) >= 8:
            c2 = list(chunks)
            c2[i] = (cid, b"\x63" + payload[1:])
            out.append(("bad_cmid_enum@%d" % i, chunktools.build(c2)))
            break
    # controller values that are not members of their enumeration (fixed and user-defined controllers)
    info, types = c05.section_info(chunks)
    spec = specmodel.load()
    done = 0
    for i, (mod_i, ordinal) in enumerate(info):
        if ordinal is None or done >= 3:
            continue
        t = types.get(mod_i)
        if t not in spec:
            continue
        ctls = spec[t].controllers
        is_enum = ordinal < len(ctls) and ctls[ordinal].kind == "enum"
        is_user = t == "MetaModule" and ordinal >= len(ctls)
        if is_enum or is_user:
            c2 = list(chunks)
            c2[i] = (b"CVAL", struct.pack("<i", 9999))
            out.append(("bad_enum_cval@%d" % i, chunktools.build(c2)))
            done += 1
    for i, (cid, payload) in enumerate(chunks):
        if cid == b"SCOL":
            c2 = list(chunks)
            c2[i] = (cid, payload + b"\0")
            out.append(("bad_scol_len@%d" % i, chunktools.build(c2)))
            break
    return out


def out_of_range_variants(data, depth=0):
    """(name, bytes) files the loader accepts leniently while reporting out-of-range values:
    range controllers far outside their range, at the top level and inside nested containers."""
    chunks = chunktools.parse(data)
    out = []
    info, types = c05.section_info(chunks)
    spec = specmodel.load()
    c2 = list(chunks)
    done = 0
    for i, (mod_i, ordinal) in enumerate(info):
        t = types.get(mod_i)
        if ordinal is None or t not in spec or done >= 4:
            continue
        ctls = spec[t].controllers
        if ordinal < len(ctls) and ctls[ordinal].kind in ("range", "compact", "no_offset"):
            c2[i] = (b"CVAL", struct.pack("<i", 0x7FFF0000 - done))
            done += 1
    if done:
        out.append(("out_of_range_cvals", chunktools.build(c2)))
    if depth < 2:
        for i, (cid, payload) in enumerate(chunks):
            if cid == b"CHDT" and payload[:4] in (b"SVOX", b"SSYN"):
                inner = out_of_range_variants(payload, depth + 1)
                if inner:
                    c3 = list(chunks)
                    c3[i] = (cid, inner[0][1])
                    out.append(("nested%d[%s]" % (i, inner[0][0]), chunktools.build(c3)))
                    break
    return out


def run_item(ctx, env, item):
    if item["src"] == "fixture":
        with open(item["path"], "rb") as f:
            data = f.read()
        ident = os.path.relpath(item["path"], os.path.join(REPO, "tests", "files"))
    elif item["src"] == "recipe":
        data = recipe_bytes(item["index"], ctx.seed)
        ident = "generated:%s@seed%d" % (item["name"], ctx.seed)
        ctx.label("generated_recipe_file")
    else:
        data = generated_bytes(item["name"])
        ident = "generated:" + item["name"]
    path = env.path_for(item, data)
    thorough = ctx.tier == "thorough"
    # clean runs: count read calls and chunk boundaries
    raised, info = one_load(ctx, ident, data, path, "stream", True, ("clean", None))
    ctx.case()
    if raised is not None:
        ctx.check(False, "C18.clean_load", "%s: clean load raised %r" % (ident, raised), recipe={"file": ident})
        return
    K = info["reads"]
    J = info["chunks"]
    raised_p, info_p = one_load(ctx, ident, data, path, "path", True, ("clean", None))
    ctx.case()
    Kp = info_p["reads"]
    nested = info["nested_loads"] > 0
    if nested:
        ctx.label("file_with_nested_load")
    combos = [("stream", True), ("stream", False), ("path", True), ("path", False)]
    n_nt = 0
    for ci, (access, flag0) in enumerate(combos):
        full = thorough or ci == 0
        stride = 1 if full else 7
        if access == "path":
            ctx.label("path_access")
        if not flag0:
            ctx.label("flag_initially_false")
        kk = K if access == "stream" else Kp
        ks = list(range(kk)) if full else sorted({0, 1, 2, 3, kk - 1} | {k + ci % stride for k in range(0, kk, stride)})
        for k in ks:
            if not (0 <= k < kk):
                continue
            r, inf = one_load(ctx, ident, data, path, access, flag0, ("read", k))
            ctx.case()
            if inf["read_fired"] and r is not None:
                ctx.label("read_fault_raised")
                n_nt += 1
            elif inf["read_fired"]:
                ctx.label("read_fault_swallowed")
        # every kind of failure a read can end in (errno values, non-OSError exceptions, a BaseException)
        # at the first reads, the middle and the last read
        for k in sorted({0, 1, 2, kk // 2, kk - 1}) if (thorough or ci in (0, 2)) else []:
            if not (0 <= k < kk):
                continue
            for xi in range(len(faults.FAULT_KINDS)):
                r, inf = one_load(ctx, ident, data, path, access, flag0, ("read", k, xi))
                ctx.case()
                if inf["read_fired"] and r is not None:
                    ctx.label("read_fault_kind_" + faults.FAULT_KINDS[xi][0])
                    n_nt += 1
        js = list(range(J)) if full else sorted({0, 1, 2, J - 1} | {j + ci % stride for j in range(0, J, stride)})
        for jj in js:
            if not (0 <= jj < J):
                continue
            r, inf = one_load(ctx, ident, data, path, access, flag0, ("chunk", jj))
            ctx.case()
            if inf["chunk_fired"] and r is not None:
                ctx.label("chunk_fault_raised")
                n_nt += 1
                if inf["depth_at_fire"]:
                    ctx.label("fault_in_nested_load")
    # the file named in other ways than str / pathlib.Path (bytes, os.DirEntry, os.PathLike objects, a
    # pure path, a str subclass): accepted or refused, nothing stays open and the flag is what it was
    for nk in NAME_KINDS:
        for flag0 in (True, False):
            for fault in (("clean", None), ("read", 1), ("chunk", 2)):
                r, inf = one_load(ctx, ident, data, path, "name:" + nk, flag0, fault)
                ctx.case()
                ctx.label("named_as_" + nk)
                if r is not None:
                    n_nt += 1
    # truncation (stream only; a truncated file on disk is the same bytes)
    chunks = chunktools.parse(data)
    offs = []
    pos = 0
    for cid, payload in chunks:
        offs.append(pos)
        if thorough:
            offs.extend([pos + 2, pos + 6, pos + 8 + len(payload) // 2, pos + 8 + max(0, len(payload) - 1)])
        elif len(offs) % 5 == 0:
            offs.extend([pos + 3, pos + 8 + len(payload) // 2])
        pos += 8 + len(payload)
    for flag0 in (True, False):
        for cut in sorted(set(o for o in offs if 0 <= o < len(data))):
            if not thorough and not flag0 and cut % 3:
                continue
            r, inf = one_load(ctx, ident, data, path, "stream", flag0, ("truncate", cut))
            ctx.case()
            ctx.label("truncated")
            if r is not None:
                ctx.label("truncated_raised")
                n_nt += 1
    # files on disk that are empty, shorter than a chunk header, not SunVox at all, or cut short
    cuts = sorted({0, 1, 3, 4, 7, 8, 11, len(data) // 2, max(0, len(data) - 1)})
    bad_files = [("cut@%d" % c, data[:c]) for c in cuts if c <= len(data)] + [("riff", b"RIFF\x24\0\0\0WAVEfmt "), ("text", b"not a sunvox file\n")]
    for name, vb in bad_files:
        vpath = env.variant_path(item, name, vb)
        for flag0 in (True, False):
            r, inf = one_load(ctx, ident + "#" + name, vb, vpath, "path", flag0, ("bad_file", None))
            ctx.case()
            ctx.label("path_bad_file")
            if r is not None:
                n_nt += 1
    for name, vb in semantic_variants(data):
        for flag0 in (True, False):
            r, inf = one_load(ctx, ident + "#" + name, vb, path, "stream", flag0, ("semantic", None))
            ctx.case()
            if r is not None:
                ctx.label("semantic_failure")
                n_nt += 1
    # diagnostics that fail: a logging handler that raises at the d-th record the load emits, and
    # warnings escalated to errors, on the file itself and on variants with out-of-range values
    for name, vb in [("", data)] + out_of_range_variants(data):
        vid = ident + ("#" + name if name else "")
        r0, inf0 = one_load(ctx, vid, vb, path, "stream", True, ("clean", None))
        ctx.case()
        D = inf0["diagnostics"]
        if name:
            ctx.label("lenient_load_with_out_of_range_values" if r0 is None else "out_of_range_variant_rejected")
        if D:
            ctx.label("load_emits_diagnostics")
        ds = list(range(D)) if (thorough or D <= 6) else sorted({0, 1, 2, D // 2, D - 1})
        for flag0 in (True, False):
            for d in ds:
                r, inf = one_load(ctx, vid, vb, path, "stream", flag0, ("diag", d))
                ctx.case()
                if inf["diag_fired"] and r is not None:
                    ctx.label("diagnostic_fault_raised")
                    n_nt += 1
                elif inf["diag_fired"]:
                    ctx.label("diagnostic_fault_swallowed")
            r, inf = one_load(ctx, vid, vb, path, "stream", flag0, ("werror", None))
            ctx.case()
            ctx.label("warnings_as_errors")
            if r is not None:
                ctx.label("warnings_as_errors_raised")
                n_nt += 1
    ctx.mark_nontrivial_count(ident, n_nt)
    ctx.sample({"file": ident, "read_calls": K, "chunk_boundaries_incl_nested": J, "nested_loads": info["nested_loads"], "nontrivial_faults": n_nt})


def run_shard(ctx, desc):
    env = Env(ctx)
    try:
        for item in desc["items"]:
            run_item(ctx, env, item)
    finally:
        env.cleanup()


def replay(ctx, doc):
    from vlib.harness import Ctx

    r = doc["recipe"]
    ident = r["file"].split("#")[0]
    if ident.startswith("generated:recipe"):
        nm, sd = ident.split(":", 1)[1].split("@seed")
        item = {"src": "recipe", "name": nm, "index": int(nm[6:])}
        data = recipe_bytes(item["index"], int(sd))
    elif ident.startswith("generated:"):
        item = {"src": "generated", "name": ident.split(":", 1)[1]}
        data = generated_bytes(item["name"])
    else:
        item = {"src": "fixture", "path": os.path.join(REPO, "tests", "files", ident)}
        data = open(item["path"], "rb").read()
    env = Env(ctx)
    try:
        path = env.path_for(item, data)
        c2 = Ctx(ctx.prop, ctx.tier, ctx.seed, 0, 1, [])
        if r.get("fault") == "bad_file":
            name = r["file"].split("#", 1)[1]
            cuts = sorted({0, 1, 3, 4, 7, 8, 11, len(data) // 2, max(0, len(data) - 1)})
            bad = dict([("cut@%d" % c, data[:c]) for c in cuts if c <= len(data)] + [("riff", b"RIFF\x24\0\0\0WAVEfmt "), ("text", b"not a sunvox file\n")])
            one_load(c2, r["file"], bad[name], env.variant_path(item, name, bad[name]), "path", r["flag_initially"], ("bad_file", None))
        elif r.get("fault") == "semantic":
            for name, vb in semantic_variants(data):
                one_load(c2, r["file"], vb, path, "stream", r["flag_initially"], ("semantic", None))
        elif r.get("fault") in ("diag", "werror") and "#" in r["file"]:
            vb = dict(out_of_range_variants(data))[r["file"].split("#", 1)[1]]
            one_load(c2, r["file"], vb, path, "stream", r["flag_initially"], (r["fault"], r["position"]))
        else:
            one_load(c2, r["file"], data, path, r["access"], r["flag_initially"], (r["fault"], r["position"]) + ((r["exc_index"],) if r.get("exc_index") is not None else ()))
        if c2.failures:
            f = c2.failures[0]
            raise PropertyViolation(f["sub_oracle"], f["detail"], f["key"])
    finally:
        env.cleanup()
