"""C06 - edits made to a loaded object are what gets saved."""

from __future__ import annotations

import os
from io import BytesIO

from hypothesis import strategies as st

from checks import c05
from vlib import build, edits, snapshot
from vlib import strategies as vs
from vlib.harness import REPO, PropertyViolation, run_property

PROPERTY_ID = "C06"
LEVEL = "exploration"
RULE = (
    "(file, attribute, value) triples: file from all fixtures and from generated projects/synths (C01/C02 strategies); attribute drawn from "
    "the catalogue of serialized public attributes present on the loaded object (project fields, common module fields, every controller, "
    "option and MIDI binding, type-specific payload elements: curve/waveform/harmonic/mapping elements, Vorbis data, sampler fields, note map, "
    "envelope fields and points, samples added/edited/removed, effect replaced or edited, MetaModule count/labels/mappings and edits inside "
    "the embedded project, pattern fields and note cells); value from the attribute's domain. 1-2 successive edits per case, with the loaded object optionally saved or cloned (result discarded) before each edit; payload edits either mutate the sub-object in place or assign a whole new object (envelope, list of envelopes, curve value list); dedicated shards for songs holding 2-3 byte-identical containers (edit inside one of them), Samplers (with embedded effect), MetaModules and nested MetaModules (edits inside embedded projects at depth 1-2). Oracle "
    "(metamorphic): snapshot after the edit differs from the one before only at the edited path + declared couplings and shows the new value; "
    "snapshot(load(save(edited))) == snapshot(edited). every fixture is additionally swept deterministically over every attribute of the common catalogue (project fields, common module fields, every controller at both range ends / two members, every option, one binding per controller; quick: every 6th attribute) and with 12 (quick) / 60 (thorough) generated edits. distinct = case hash; "
    "non-trivial = the edit changed the value"
    ' Also (added while the seeded-change rounds of DESIGN section 9 ran): Also: edits that rebind chunk objects before an element edit, user-defined controller values (direct and through the label alias) on loaded MetaModules.'
)
RULE += " Rounds 12-14 of DESIGN section 9 added: MetaModule-focused cases in a process that has derived its own MetaModule class; the Sampler record grid with every field edited to every grid value; every ordered pair of envelope edits on an untouched instrument; one Sample object put into a second slot; mapping items edited in place."
ASSUMPTIONS = [
    "declared couplings: exclusive options reset their partner; MultiCtl.value fans out to linked targets; an embedded controller edit may update "
    "the MetaModule's stored user-controller values; the user-controller count changes attachment/labels/stored values",
    "not editable by construction: Output.name, index/parent/project back-references, a loaded pattern's tracks/lines",
    "a program's own subclass of MetaModule (three shards) overrides nothing; subclasses that change behaviour are outside the catalogue",
    "instruments without the 'SAMP' signature (true legacy) are outside this property's domain",
]
# classes of cases that are produced deterministically: their absence is a harness error (see vlib.harness)
HARD_LABELS = ['attr_sweep', 'src_fixture', 'after_user_subclass_of_metamodule']
REQUIRED_LABELS = {
    "quick": ["edit_pf", "edit_mc", "edit_ctl", "edit_opt", "edit_cmid", "edit_pay", "edit_cell", "src_fixture", "src_project", "src_synth", "sampler_edit", "changed", "attr_sweep", "saved_before_edit", "embedded_edit", "duplicates", "edit_inside_one_of_identical_containers", "whole_object_replaced", "user_value_edit", "user_value_edit_via_alias", "after_user_subclass_of_metamodule"],
    "thorough": ["edit_pf", "edit_mc", "edit_ctl", "edit_opt", "edit_cmid", "edit_pay", "edit_cell", "edit_patf", "src_fixture", "src_project", "src_synth", "sampler_edit", "metamodule_edit", "embedded_edit", "changed", "fixture_sweep"],
}


def exhaustive(tier):
    return False


def plan(tier):
    n, per = (16, 60) if tier == "quick" else (16, 1500)
    descs = [{"kind": "random", "examples": per} for _ in range(n)]
    for t in ("Sampler", "MetaModule", "NestedMeta", "SamplerEffect", "Duplicates", "MetaUser"):
        for i in range(2):
            descs.append({"kind": "focus", "type": t, "examples": per})
    for t in ("MetaUser", "MetaModule", "NestedMeta"):
        # the same, in a process whose program has derived its own class from MetaModule (the registry then
        # hands out that class for every MetaModule read from a file)
        descs.append({"kind": "focus", "type": t, "examples": per // 2, "prelude": "user_subclass"})
    for i in range(4):
        # a Sampler's instrument record over the grid of its few format-version values and editor fields, each field
        # then edited to every grid value on the loaded object
        descs.append({"kind": "sampler_record_grid", "part": i, "parts": 4})
    fs = c05.fixture_files()
    for i in range(4):
        # every fixture x every attribute of the common catalogue (thorough: all; quick: every 6th, phase by seed)
        descs.append({"kind": "attr_sweep", "files": fs[i::4], "stride": 6 if tier == "quick" else 1, "phase": i})
    k = 4 if tier == "quick" else 8
    for i in range(k):
        descs.append({"kind": "fixture_sweep", "files": fs[i::k], "edits": 12 if tier == "quick" else 60})
    return descs


def base_bytes(src):
    data = _base_bytes(src)
    tr = src.get("transform")
    if tr == "short_sample_records":
        data = build.short_sample_records(data)[0]
    elif isinstance(tr, list) and tr[0] == "short_chunk":
        data = build.short_array_chunk(data, tr[1], tr[2])[0]
        if len(tr) > 3:
            data = build.set_chnk(data, tr[3])[0]
    return data


def _base_bytes(src):
    from rv.api import Synth

    if src["src"] == "fixture":
        with open(os.path.join(REPO, "tests", "files", src["file"]), "rb") as f:
            return f.read()
    if src["src"] == "project":
        return build.make_project(src["spec"]).read()
    if src["src"] == "meta":
        from checks import c15

        return Synth(c15.build_meta(src["spec"])).read()
    return Synth(build.make_module(src["spec"])).read()


@st.composite
def edit_case(draw, fixture=None, focus=None):
    if focus == "NestedMeta":
        from checks import c15

        src = {"src": "meta", "spec": draw(c15.meta_spec(draw(st.integers(1, 2)), in_project=False))}
    elif focus == "Duplicates":
        # a song holding several byte-identical copies of one MetaModule / Sampler-with-effect
        import copy

        ps = draw(build.project_spec(depth=0, max_modules=2, max_patterns=1))
        dup = draw(st.one_of(build.module_spec(in_project=True, depth=1, tname="MetaModule"), build.module_spec(in_project=True, depth=1, tname="Sampler").filter(lambda ms: ms["payload"].get("effect"))))
        for _ in range(draw(st.integers(2, 3))):
            ps["modules"].append(copy.deepcopy(dup))
        src = {"src": "project", "spec": ps}
    elif focus == "MetaUser":
        from checks import c15

        ms = draw(c15.meta_spec(1, in_project=False))
        if ms["payload"]["mappings"] and draw(st.booleans()):
            # give one mapped, exposed controller a plain one-word label (its alias is then usable)
            i = draw(st.sampled_from(sorted({m_[0] for m_ in ms["payload"]["mappings"] if m_[0] < ms["payload"]["count"]}) or [0]))
            word = draw(st.sampled_from(["cutoff", "res", "mix", "vol", "depth", "rate"]))
            ms["payload"]["labels"] = [l_ for l_ in ms["payload"]["labels"] if l_[0] != i and l_[1] != word] + [[i, word]]
            ms["labels_beyond_count"] = [l_ for l_ in ms.get("labels_beyond_count", []) if l_[0] != i]
        src = {"src": "meta", "spec": ms}
        obj = c05.load(base_bytes(src))
        users = edits.user_value_targets(obj.module)
        if not users:
            # no exposed user controller with a usable target in this recipe: an ordinary payload edit instead
            src["edits"] = [draw(edits.draw_edit(obj, focus=True))]
        else:
            i, alias, tmi, tname, c = draw(st.sampled_from(users))
            via = alias if (alias and draw(st.integers(0, 2)) > 0) else None
            src["edits"] = [["mod", -1, "pay", "m_user", i, via, draw(vs.edge_int(c.min, c.max)), tmi, c.name, c.min]]
        src["saves"] = [draw(st.sampled_from([None, "read", "clone"]))]
        return src
    elif focus == "SamplerEffect":
        src = {"src": "synth", "spec": draw(build.module_spec(in_project=False, depth=1, tname="Sampler").filter(lambda ms: ms["payload"].get("effect")))}
    elif focus is not None:
        if draw(st.integers(0, 3)) == 0:
            src = {"src": "fixture", "file": {"Sampler": "sampler.sunsynth", "MetaModule": "metamodule.sunsynth"}[focus]}
        else:
            src = {"src": "synth", "spec": draw(build.module_spec(in_project=False, depth=1, tname=focus))}
    elif fixture is not None:
        src = {"src": "fixture", "file": fixture}
    else:
        kind = draw(st.sampled_from(["fixture", "fixture", "project", "synth", "synth"]))
        if kind == "fixture":
            files = c05.fixture_files()
            src = {"src": "fixture", "file": os.path.relpath(draw(st.sampled_from(files)), os.path.join(REPO, "tests", "files"))}
        elif kind == "project":
            src = {"src": "project", "spec": draw(build.project_spec(depth=1, max_modules=4, max_patterns=2))}
        else:
            heavy = draw(st.booleans())
            types = ["Sampler", "MetaModule", "MultiSynth", "MultiCtl", "SpectraVoice", "Fmx", "WaveShaper", "VorbisPlayer", "AnalogGenerator", "Generator"] if heavy else None
            src = {"src": "synth", "spec": draw(build.module_spec(in_project=False, depth=1, types=types))}
    obj = c05.load(base_bytes(src))
    eds = [draw(edits.draw_edit(obj, focus=focus is not None))]
    if draw(st.integers(0, 3)) == 0:
        edits.apply_edit(obj, eds[0])
        eds.append(draw(edits.draw_edit(obj, focus=focus is not None)))
    src = dict(src)
    src["edits"] = eds
    # the loaded object may be saved / cloned (result discarded) before and between the edits
    src["saves"] = draw(st.lists(st.sampled_from(["read", "clone"]), min_size=len(eds), max_size=len(eds)).map(lambda l: [x if i % 2 == 0 or x == "read" else None for i, x in enumerate(l)])) if draw(st.booleans()) else [None] * len(eds)
    return src


def enumerate_attribute_edits(obj):
    """Deterministic sweep: one edit per serialized attribute of the common catalogue (project fields,
    common module fields, every controller x 2 values, every option, one MIDI binding per controller)."""
    from vlib import specmodel

    out = []
    by_mtype = specmodel.by_mtype()
    proj = type(obj).__name__ == "Project"
    if proj:
        vals = {
            "based_on_version": [1, 2, 3, 4], "flags": 1, "receive_sync_midi": 5, "receive_sync_other": 6, "initial_bpm": 999, "initial_tpl": 31, "time_grid": 7,
            "time_grid2": 9, "global_volume": 511, "name": "Ren\u00e9 \u2603", "modules_scale": 300, "modules_zoom": 301, "modules_x_offset": -77, "modules_y_offset": 88,
            "modules_layer_mask": 0xA5, "modules_current_layer": 3, "timeline_position": -5, "restart_position": 17, "selected_module": 2, "selected_generator": 1,
            "current_pattern": 4, "current_track": 5, "current_line": 6,
        }
        for k, v in vals.items():
            out.append(["pf", k, v])
        mods = [(i, m) for i, m in enumerate(obj.modules) if m is not None]
        for pi, pat in enumerate(obj.patterns):
            if pat is None:
                continue
            if type(pat).__name__ == "PatternClone":
                for f, v in (("source", 1), ("flags_PFFF", 9), ("x", -40), ("y", 41)):
                    out.append(["clonef", pi, f, v])
                continue
            for f, v in (("name", "p\u00e4t"), ("y_size", 48), ("flags_PFLG", 3), ("icon", "5a" * 32), ("fg_color", [9, 8, 7]), ("bg_color", [1, 2, 3]), ("flags_PFFF", 0x18), ("x", -64), ("y", 96)):
                out.append(["patf", pi, f, v])
            cells = {(0, 0): [5, 9, 0x0102, 0x0304, 0x0506], (pat.lines - 1, pat.tracks - 1): [0, 0, 0x01FF, 0, 0], (pat.lines // 2, 0): [128, 129, 0xFFFF, 0xFFFF, 0xFFFF]}
            for (ln, tr), c in cells.items():
                out.append(["cell", pi, ln, tr, c])
    else:
        mods = [(-1, obj.module)]
    common = {"name": "n\u00e4me-\u266b", "flags": 0x4051 | 0x80, "mod_finetune": -200, "mod_relative_note": 99, "mod_scale": 333, "color": [1, 2, 3], "midi_in_always": True, "midi_in_channel": 9,
              "midi_out_name": "out \u00fc", "midi_out_channel": 4, "midi_out_bank": 77, "midi_out_program": 5}
    if proj:
        common.update({"x": -123, "y": 4567, "layer": 5, "visualization": 0x0A0F0221})
    for mi, m in mods:
        mt = by_mtype.get(m.mtype)
        for k, v in common.items():
            if k == "name" and type(m).__name__ == "Output":
                continue
            if k == "midi_in_always":
                v = not bool(m.midi_in_always)
            out.append(["mod", mi, "mc", k, v])
        if mt is None:
            continue
        for c in mt.controllers:
            cur = getattr(m, c.name)
            if c.kind in ("range", "compact", "no_offset"):
                cands = [c.min, c.max]
            elif c.kind == "enum":
                cands = [["enum", n] for n in list(c.members)[:2]]
            elif c.kind == "bool":
                cands = [not bool(cur)]
            else:
                lo, hi = c.ranges[edits.current_unit(m, c)]
                cands = [lo, hi]
            for v in cands:
                out.append(["mod", mi, "ctl", c.name, v])
            out.append(["mod", mi, "cmid", c.name, [3, 7, 2, 1234]])
        for o in mt.options:
            if o.name == "user_defined_controllers":
                continue
            cur = getattr(m, o.name)
            v = (not bool(cur)) if o.size == 1 else (int(cur) + 1) % ((o.max + 1) if o.max is not None else (1 << o.size))
            out.append(["mod", mi, "opt", o.name, v])
        out.extend(["mod", mi, "pay"] + e for e in payload_sweep(m))
    return out


def payload_sweep(m):
    """Deterministic type-specific edits (one of every kind the random catalogue knows) for a loaded module."""
    t = type(m).__name__
    out = []
    if t == "MultiSynth":
        for a, v in (("nv_curve", 7), ("vv_curve", 201), ("np_curve", 40000)):
            out += [["arr", a, 3, v], ["arr_rebound", a, 5, v], ["arr_whole", a, [(v + i) % (65536 if a == "np_curve" else 256) for i in range(len(getattr(m, a).values))]]]
    elif t == "WaveShaper":
        out += [["arr", "curve", 9, 12345], ["arr_rebound", "curve", 200, 1], ["arr_whole", "curve", [(i * 257) % 65536 for i in range(256)]]]
    elif t == "MultiCtl":
        out += [["arr", "curve", 256, 0x8000], ["arr_whole", "curve", [min(0x8000, i * 64) for i in range(257)]], ["mcmap", 0, "min", 77], ["mcmap", 15, "max", 0x7000], ["mcmap", 3, "controller", 2]]
    elif t == "SpectraVoice":
        for i, (f, v) in enumerate((("freq_hz", 12345), ("volume", 77), ("width", 9), ("type", 3))):
            out += [["harm", i, f, v], ["harm_rebound", 8 + i, f, v]]
    elif t == "Fmx":
        out += [["arr", "custom_waveform", 17, 0.25]]
    elif t in ("Generator", "AnalogGenerator"):
        out += [["wave", 0, -128], ["wave", 31, 127]]
    elif t == "VorbisPlayer":
        out += [["vdata", "4f676753" + "00" * 40]]
    elif t == "Sampler":
        keys = list(m.note_samples.keys())
        mapped = [i for i, k in enumerate(keys) if m.note_samples[k]]
        out += [["s_map", 5, 9], ["s_map_tail", 0, 0], ["s_map_tail", (mapped[-1] if mapped else 60), 0], ["s_map_tail", 96, 1], ["s_map_tail", 110, 0x20]]
        env = {"points": [[0, 0x4000], [10, 0x2000], [300, 0]], "enable": True, "sustain": False, "loop": True, "ctl_index": 3, "gain_pct": 50, "velocity": 1, "sustain_point": 1, "loop_start_point": 0, "loop_end_point": 2}
        out += [["s_env", "volume", "enable", False], ["s_env", "pitch", "loop", True], ["s_point", "volume", "append", [999, 0x1000]], ["s_env_whole", "volume", env], ["s_env_whole", "fx1", env], ["s_ece_list_whole", [env, env, env, env]]]
        present = [i for i, x in enumerate(m.samples) if x is not None]
        smp = {"data": "0102030405060708", "format": "int8", "channels": "mono", "rate": 22050, "loop_start": 1, "loop_len": 2, "loop_type": "forward", "loop_sustain": True, "volume": 33, "finetune": -5, "panning": 7, "relative_note": 3, "reserved2": 0, "start_pos": 1, "name": "6162"}
        out += [["s_sample_new", 127, smp], ["s_field", "vibrato_depth", 9]]
        if present:
            out += [["s_sample_field", present[0], "data", "00" * 10], ["s_sample_field", present[0], "format", "int16"], ["s_sample_field", present[0], "volume", 1], ["s_sample_del", present[-1]], ["s_sample_alias", 100, present[0]], ["s_sample_alias", present[-1] + 1, present[-1]]]
    elif t == "MetaModule":
        out += [["m_count", 0], ["m_count", 96], ["m_map", 95, 0xFFF0, 7], ["m_label", 0, "cutoff"]] if m.user_defined_controllers else [["m_count", 3], ["m_map", 0, 0xFFF0, 1]]
        out += [["m_project_whole"]]
    return out


_PRELUDE = []


def user_subclass_prelude():
    """What a program with its own module classes does at import time: a plain subclass of MetaModule (same
    name, nothing overridden).  Runs once per (forked, single-task) worker process."""
    if not _PRELUDE:
        import rv.modules.metamodule as mm

        _PRELUDE.append(type("MetaModule", (mm.MetaModule,), {"__module__": "user_program", "__doc__": "derived by the program"}))
    return _PRELUDE[0]


def run_case(ctx, case):
    if case.get("prelude") == "user_subclass":
        cls = user_subclass_prelude()
    else:
        cls = None
    obj = c05.load(base_bytes(case))
    if cls is not None:
        root = obj.module if type(obj).__name__ == "Synth" else None
        if root is not None and root.mtype == "MetaModule" and type(root) is not cls:
            # not a property of the library that we rely on elsewhere: the recipe is only meaningful if the registry
            # really handed out the derived class
            raise AssertionError("prelude: loaded MetaModule is %r, not the derived class" % type(root))
    labels = {"src_" + case["src"]}
    changed_any = False
    saves = case.get("saves") or [None] * len(case["edits"])
    for e, pre in zip(case["edits"], saves):
        if pre == "read":
            obj.read()
            labels.add("saved_before_edit")
        elif pre == "clone":
            (obj.module if type(obj).__name__ == "Synth" else obj).clone()
            labels.add("saved_before_edit")
        s0 = snapshot.snap(obj)
        primary, want, extra = edits.edit_paths(obj, e)
        edits.apply_edit(obj, e)
        s1 = snapshot.snap(obj)
        diffs = snapshot.diff(s0, s1, limit=50)
        for path, a, b in diffs:
            if not edits.path_allowed(path, primary, extra):
                raise PropertyViolation("C06.edit.side_effect", "edit %r changed %s: %r -> %r (only %s may change)" % (e[:4], path, a, b, primary), key="C06.edit.side_effect:" + kind_of(e))
        if want is not edits.module_paths.NOCHECK:
            got = edits.get_path(s1, primary)
            if got is not edits.module_paths.NOCHECK and not same(got, want):
                raise PropertyViolation("C06.edit.shows", "after edit %r, %s reads %r, expected %r" % (e[:4], primary, got, want), key="C06.edit.shows:" + kind_of(e))
        if diffs:
            changed_any = True
        labels.add("edit_" + (e[2] if e[0] == "mod" else e[0]))
        flat = repr(e)
        if "'s_" in flat or "'effect'" in flat:
            labels.add("sampler_edit")
        if "'m_" in flat:
            labels.add("metamodule_edit")
        if "'embedded'" in flat:
            labels.add("embedded_edit")
        if "_whole'" in flat:
            labels.add("whole_object_replaced")
        if "'m_user'" in flat:
            labels.add("user_value_edit")
            if "'u_" in flat:
                labels.add("user_value_edit_via_alias")
    s1 = snapshot.snap(obj)
    data = obj.read()
    back = c05.load(data)
    s2 = snapshot.snap(back)
    d = snapshot.diff(s1, s2)
    if d:
        raise PropertyViolation(
            "C06.saved_state",
            "after edits %r the saved file loads differently: %s" % ([e[:4] for e in case["edits"]], "; ".join("%s: %r -> %r" % x for x in d[:3])),
            key="C06.saved_state:" + kind_of(case["edits"][-1]),
        )
    if changed_any:
        labels.add("changed")
    return labels, changed_any


def same(got, want):
    if isinstance(want, float) or isinstance(got, float):
        import struct

        try:
            return struct.pack("<f", got) == struct.pack("<f", want)
        except Exception:  # noqa: BLE001
            return got == want
    if isinstance(want, (list, tuple)) and isinstance(got, (list, tuple)):
        return len(got) == len(want) and all(same(a, b) for a, b in zip(got, want))
    return got == want


def kind_of(e):
    if e[0] == "mod":
        k = e[2]
        if k == "pay":
            return "pay." + str(e[3])
        return k
    return e[0]


def run_shard(ctx, desc):
    def body(case):
        ctx.case()
        labels, changed = run_case(ctx, case)
        ctx.label(*labels)
        if changed:
            ctx.mark_nontrivial(case)
        if len(repr(case)) < 1200:
            ctx.sample(case)

    if desc["kind"] == "attr_sweep":
        for f in desc["files"]:
            rel = os.path.relpath(f, os.path.join(REPO, "tests", "files"))
            obj = c05.load(base_bytes({"src": "fixture", "file": rel}))
            all_edits = enumerate_attribute_edits(obj)
            stride = desc["stride"]
            n = 0
            for i, e in enumerate(all_edits):
                if i % stride != desc["phase"] % stride and e[0] not in ("cell", "patf", "clonef") and not (e[0] == "mod" and e[2] == "pay"):
                    continue
                case = {"src": "fixture", "file": rel, "edits": [e]}
                ctx.case()
                try:
                    labels, changed = run_case(ctx, case)
                    if changed:
                        ctx.mark_nontrivial(case)
                except PropertyViolation as v:
                    ctx.check(False, v.sub_oracle, v.detail, key=v.key, recipe={"tag": "attr_sweep", "case": case})
                except Exception as ex:  # noqa: BLE001
                    from vlib.harness import as_violation

                    v = as_violation(ex, "C06", "edit")
                    if v is None:
                        raise
                    ctx.check(False, v.sub_oracle, "%s %r: %s" % (rel, e[:4], v.detail), key=v.key, recipe={"tag": "attr_sweep", "case": case})
                n += 1
            ctx.label("attr_sweep")
            ctx.sample({"src": "attr_sweep", "file": rel, "attributes": len(all_edits), "edited": n})
        return
    if desc["kind"] == "sampler_record_grid":
        run_sampler_record_grid(ctx, desc["part"], desc["parts"])
        return
    if desc["kind"] == "fixture_sweep":
        for f in desc["files"]:
            rel = os.path.relpath(f, os.path.join(REPO, "tests", "files"))
            ctx.label("fixture_sweep")
            if not run_property(ctx, edit_case(fixture=rel), body, desc["edits"], tag="sweep:" + rel, bucket="edit"):
                return
        return
    if desc["kind"] == "focus" and desc["type"] == "Duplicates":
        def body_dup(case):
            body(case)
            if any("'embedded'" in repr(e) or "'effect'" in repr(e) for e in case["edits"]):
                ctx.label("edit_inside_one_of_identical_containers")
            ctx.label("duplicates")

        run_property(ctx, edit_case(focus="Duplicates"), body_dup, desc["examples"], tag="focus:Duplicates", bucket="edit")
        return
    if desc["kind"] == "focus" and desc.get("prelude"):
        user_subclass_prelude()

        def body_pre(case):
            body(case)
            ctx.label("after_user_subclass_of_metamodule")

        run_property(ctx, edit_case(focus=desc["type"]).map(lambda c: dict(c, prelude=desc["prelude"])), body_pre, desc["examples"], tag="focus+prelude:" + desc["type"], bucket="edit")
        return
    if desc["kind"] == "focus":
        run_property(ctx, edit_case(focus=desc["type"]), body, desc["examples"], tag="focus:" + desc["type"], bucket="edit")
        return
    run_property(ctx, edit_case(), body, desc["examples"], tag="random", bucket="edit")


def run_sampler_record_grid(ctx, part, parts):
    grid = build.SAMPLER_RECORD_GRID
    for k, (fields, spec) in enumerate(build.sampler_record_grid_specs()):
        if k % parts != part:
            continue
        for name in sorted(grid):
            for v in grid[name]:
                if v == fields[name]:
                    continue
                case = {"src": "synth", "spec": spec, "edits": [["mod", -1, "pay", "s_field", name, v]]}
                ctx.case()
                try:
                    labels, changed = run_case(ctx, case)
                    if changed:
                        ctx.mark_nontrivial(case)
                except PropertyViolation as v_:
                    ctx.check(False, v_.sub_oracle, v_.detail, key=v_.key, recipe={"tag": "sampler_record_grid", "case": case})
                except Exception as ex:  # noqa: BLE001
                    from vlib.harness import as_violation

                    v_ = as_violation(ex, "C06", "edit")
                    if v_ is None:
                        raise
                    ctx.check(False, v_.sub_oracle, "%r %r: %s" % (fields, case["edits"][0][3:], v_.detail), key=v_.key, recipe={"tag": "sampler_record_grid", "case": case})
    # pairs of envelope edits on an otherwise untouched instrument: one envelope switched off / emptied, another given
    # values that the pre-envelope instrument fields could not hold
    names = ["volume", "panning", "pitch", "fx0", "fx1", "fx2", "fx3"]
    plain = {"type": "Sampler", "common": {"name": "Sampler"}, "sets": [], "options": [], "cmid": [], "payload": {"samples": [], "envelopes": {}, "fields": {}}}
    k = 0
    for a in names:
        for b in names:
            if a == b:
                continue
            k += 1
            if k % parts != part:
                continue
            lo = 0 if b in ("volume", "fx0", "fx1", "fx2", "fx3") else -0x4000
            env = {"points": [[0, lo + 100], [64, lo + 4321], [200, lo + 7], [300, lo + 0x3FFF]], "enable": True, "sustain": True, "loop": False, "ctl_index": 3, "gain_pct": 50, "velocity": 1, "sustain_point": 2, "loop_start_point": 0, "loop_end_point": 3}
            for first in (["s_env", a, "enable", False], ["s_env", a, "enable", True], ["s_env_whole", a, dict(env, points=[], enable=False, sustain=False, sustain_point=0, loop_end_point=0)]):
                case = {"src": "synth", "spec": plain, "edits": [["mod", -1, "pay"] + first, ["mod", -1, "pay", "s_env_whole", b, env]]}
                ctx.case()
                try:
                    labels, changed = run_case(ctx, case)
                    ctx.mark_nontrivial(case)
                except PropertyViolation as v_:
                    ctx.check(False, v_.sub_oracle, v_.detail, key=v_.key, recipe={"tag": "sampler_record_grid", "case": case})
                except Exception as ex:  # noqa: BLE001
                    from vlib.harness import as_violation

                    v_ = as_violation(ex, "C06", "edit")
                    if v_ is None:
                        raise
                    ctx.check(False, v_.sub_oracle, "%r: %s" % ([e_[3:5] for e_ in case["edits"]], v_.detail), key=v_.key, recipe={"tag": "sampler_record_grid", "case": case})
    ctx.label("sampler_record_grid", "envelope_edit_pairs")
    ctx.sample({"src": "sampler_record_grid", "grid": grid, "part": [part, parts]})


def replay(ctx, doc):
    run_case(ctx, doc["recipe"]["case"])
