"""C08 - the connection graph and slot order persist across save/load."""

from __future__ import annotations

import struct
from io import BytesIO

from hypothesis import strategies as st

from checks import c07
from vlib import chunktools
from vlib import linkmodel as lm
from vlib.harness import PropertyViolation, run_property

PROPERTY_ID = "C08"
LEVEL = "exploration"
RULE = (
    "Hypothesis: link histories of C07 (all spellings, up to 8/16 modules) with save_load steps interleaved (project replaced by "
    "its reloaded copy, history continues against the model), then file variants of the final bytes: slot chunk (SLnK) as written / "
    "removed everywhere / removed from a generated subset of modules, SLNK with and without -1 terminator. Plus a complete enumeration "
    "of all single-pair histories of length <= 3 over 3 nodes (<= 4 thorough), each saved and reloaded. Oracle: as written -> per-module "
    "in/out tables and slots equal up to trailing freed slots, C07 consistency, edge set == model; SLnK removed -> edge set == model and "
    "C07 consistency. non-trivial = saved graph has a freed slot in the middle, a cycle, fan-in >= 3, or a mixed present/absent SLnK file"
    ' Also (added while the seeded-change rounds of DESIGN section 9 ran): Also: big projects and wide fan-outs as in C07, files written as older versions, and at the end of every history the same file with the sections of unlinked modules emptied (empty positions).'
)
RULE += " Rounds 12-14 of DESIGN section 9 added: a fixed set of link histories (freed slots before live links) gives the same tables in 12 differently started interpreters."
ASSUMPTIONS = [
    "slot positions are claimed only when the file carries SLnK as the library wrote it; with SLnK removed only graph + consistency are claimed",
    "vlib.chunktools edits (dropping SLnK chunks, appending a -1 terminator) produce files the format documentation allows",
]
REQUIRED_LABELS = {
    "quick": ["save_load_midway", "freed_slot_middle_saved", "cycle_saved", "variant_subset", "variant_all_removed", "slnk_written", "modules_at_positions_above_256", "written_as_old_version", "file_with_empty_positions", "fan_out_of_more_than_255"],
    "thorough": ["save_load_midway", "freed_slot_middle_saved", "cycle_saved", "fan_in3_saved", "variant_subset", "variant_all_removed", "slnk_written"],
}


def exhaustive(tier):
    return False


def plan(tier):
    descs = []
    depth = 3 if tier == "quick" else 4
    for first in range(18):
        descs.append({"kind": "dfs", "depth": depth, "first": first})
    n, per = (16, 50) if tier == "quick" else (16, 500)
    for i in range(n):
        descs.append({"kind": "random", "examples": per, "max_modules": 8 if tier == "quick" else 16, "max_ops": 24 if tier == "quick" else 40})
    for i in range(2 if tier == "quick" else 8):
        # projects whose linked modules sit at positions around and above 256
        descs.append({"kind": "random", "big": True, "wide": i % 2 == 1, "examples": 12 if tier == "quick" else 80, "max_modules": 8, "max_ops": 16})
    from vlib import subproc

    names = sorted(subproc.VARIANTS)
    for i in range(2):
        # a fixed set of link histories (freed slots before live links, both directions) saved and loaded in
        # interpreters started in other ways
        descs.append({"kind": "interpreters", "variants": names[i::2]})
    return descs


def fixed_link_digests():
    """{history name: digest of the link tables before saving + after loading (+ after loading the re-saved file)}"""
    import hashlib
    import json
    from io import BytesIO

    from rv.api import Project, m, read_sunvox_file

    histories = {
        "hole_in_in_table": [(1, 4, 0), (2, 4, 0), (3, 4, 0), (1, 4, 1), (4, 0, 0)],
        "hole_in_out_table": [(1, 2, 0), (1, 3, 0), (1, 4, 0), (1, 2, 1), (4, 0, 0), (2, 0, 0)],
        "holes_both": [(1, 4, 0), (2, 4, 0), (3, 4, 0), (2, 1, 0), (2, 3, 0), (2, 4, 1), (1, 4, 1), (1, 4, 0), (4, 0, 0)],
        "reconnected": [(1, 2, 0), (3, 2, 0), (1, 2, 1), (4, 2, 0), (1, 2, 0), (2, 0, 0)],
        "fan_in_out": [(a, b, 0) for a in (1, 2, 3) for b in (4, 5)] + [(2, 4, 1), (1, 5, 1), (6, 4, 0), (6, 5, 0), (4, 0, 0), (5, 0, 0)],
    }
    out = {}
    for name, hist in histories.items():
        try:
            p = Project()
            for cls in (m.Amplifier, m.Generator, m.MultiCtl, m.Filter, m.Echo, m.MetaModule):
                p.new_module(cls)
            for a, b, dis in hist:
                if dis:
                    p.modules[a] >> ~p.modules[b]
                else:
                    p.modules[a] >> p.modules[b]
            t0 = lm.tables(p)
            data = p.read()
            q = read_sunvox_file(BytesIO(data))
            t1 = lm.tables(q)
            t2 = lm.tables(read_sunvox_file(BytesIO(q.read())))
            out[name] = hashlib.sha256(json.dumps([lm.stripped_tables(p), t1, t2, sorted(lm.edges_of(q))]).encode()).hexdigest()[:16] + ":" + hashlib.sha256(data).hexdigest()[:12] + (":same" if lm.stripped_tables(q) == lm.stripped_tables(p) else ":differs")
            del t0
        except Exception as e:  # noqa: BLE001
            out[name] = "raised %s: %s" % (type(e).__name__, str(e)[:80])
    return out


def has_cycle(E):
    adj = {}
    for f, t in E:
        adj.setdefault(f, set()).add(t)
    color = {}

    def dfs(u):
        color[u] = 1
        for v in adj.get(u, ()):
            if color.get(v) == 1:
                return True
            if color.get(v) is None and dfs(v):
                return True
        color[u] = 2
        return False

    return any(color.get(u) is None and dfs(u) for u in list(adj))


def compare_saved(project, E, labels, where):
    """save -> load; as-written oracle.  Returns (bytes, loaded project)."""
    from rv.api import read_sunvox_file

    before = lm.stripped_tables(project)
    data = project.read()
    loaded = read_sunvox_file(BytesIO(data))
    after = lm.stripped_tables(loaded)
    if len(after) < len(before) and all(x is None for x in before[len(after) :]):
        before = before[: len(after)]
    if before != after:
        diffs = [(i, b, a) for i, (b, a) in enumerate(zip(before, after)) if a != b]
        raise PropertyViolation("C08.as_written.tables", "%s: tables differ after save/load (module, before, after): %r" % (where, diffs[:3]))
    lm.check_consistency(loaded, E, "C08")
    for t in before:
        if t and (-1 in t[0] or -1 in t[2]):
            labels.add("freed_slot_middle_saved")
    if has_cycle(E):
        labels.add("cycle_saved")
    fan = {}
    for f, t in E:
        fan[t] = fan.get(t, 0) + 1
    if any(v >= 3 for v in fan.values()):
        labels.add("fan_in3_saved")
    if b"SLnK" in data:
        labels.add("slnk_written")
    return data, loaded


def variant_bytes(data, mode, mask, terminate):
    chunks = chunktools.parse(data)
    out = []
    mod_i = -1
    dropped = kept = 0
    in_modules = False
    for cid, payload in chunks:
        if cid == b"SFFF":
            mod_i += 1
            in_modules = True
        if cid == b"SEND" and not in_modules:
            mod_i += 1
        if cid == b"SLnK":
            drop = mode == "all" or (mode == "subset" and (mask >> (mod_i % 30)) & 1)
            if drop:
                dropped += 1
                continue
            kept += 1
        if cid == b"SLNK" and terminate and payload:
            payload = payload + struct.pack("<i", -1)
        if cid == b"SEND":
            in_modules = False
        out.append((cid, payload))
    return chunktools.build(out), dropped, kept


def check_variants(data, E, variant, labels):
    from rv.api import read_sunvox_file

    mode, mask, terminate = variant["drop"], variant["mask"], variant["terminate"]
    vb, dropped, kept = variant_bytes(data, mode, mask, terminate)
    loaded = read_sunvox_file(BytesIO(vb))
    sub = "C08.slnk_removed" if mode == "all" else "C08.partial_slnk" if (dropped and kept) else "C08.slnk_variant"
    try:
        lm.check_consistency(loaded, E, sub)
    except PropertyViolation as v:
        v.detail = "variant %r (dropped %d SLnK, kept %d): %s" % (variant, dropped, kept, v.detail)
        raise PropertyViolation(v.sub_oracle, v.detail, key=v.sub_oracle)
    if mode == "all" and dropped:
        labels.add("variant_all_removed")
    if dropped and kept:
        labels.add("variant_subset")
    if terminate:
        labels.add("variant_terminated")
    if mode == "none" or not dropped:
        # slots as written must still come back when only the terminator differs
        orig = read_sunvox_file(BytesIO(data))
        if lm.stripped_tables(orig) != lm.stripped_tables(loaded):
            raise PropertyViolation("C08.terminator", "adding a -1 terminator to SLNK changed the loaded tables")


@st.composite
def c08_case(draw, max_modules, max_ops, big=False, wide=False):
    case = draw(c07.op_list(max_modules, max_ops, with_save_load=True, big=big, wide=wide))
    ver = draw(st.sampled_from([None, None, [1, 9, 4, 2], [1, 7, 0, 0], [2, 0, 0, 0]]))
    if ver:
        case["sunvox_version"] = ver  # written as a file of that SunVox version
    case["variant"] = {
        "drop": draw(st.sampled_from(["none", "all", "subset", "subset"])),
        "mask": draw(st.integers(0, 2**30 - 1)),
        "terminate": draw(st.booleans()),
    }
    return case


def run_case(ctx, case):
    labels_sl = set()

    def on_save_load(world, E, step, labels):
        data, loaded = compare_saved(world.project, E, labels, "step %d" % step)
        world.project = loaded
        labels.add("save_load_midway")

    labels, world, E = c07.run_ops(ctx, case, prop="C08", on_save_load=on_save_load)
    data, loaded = compare_saved(world.project, E, labels, "final")
    check_variants(data, E, case["variant"], labels)
    check_with_holes(world.project, data, E, labels)
    return labels | labels_sl


def check_with_holes(project, data, E, labels):
    """The same file with empty module positions in it (the sections of modules that take no part in any
    link are emptied, as when a user deleted those modules in SunVox): every other module keeps its
    position, the graph and the slot order are what was saved."""
    from rv.api import read_sunvox_file
    from vlib import build

    linked = {a for a, b in E} | {b for a, b in E}
    n = len(project.modules)
    free = [i for i in range(1, n - 1) if i not in linked and project.modules[i] is not None]
    if not free:
        return
    holes = set(free[:1] + free[-1:])
    loaded = read_sunvox_file(BytesIO(build.blank_module_sections(data, holes)))
    for i in range(n):
        m0, m1 = project.modules[i], loaded.modules[i] if i < len(loaded.modules) else None
        if i in holes:
            if m1 is not None:
                raise PropertyViolation("C08.holes.position", "position %d was emptied in the file and holds %r after loading" % (i, type(m1).__name__))
        elif (m0 is None) != (m1 is None) or (m0 is not None and (type(m0) is not type(m1) or m1.index != i)):
            raise PropertyViolation("C08.holes.position", "with positions %r emptied, position %d holds %r (index %r) after loading, the file has %r there" % (sorted(holes), i, type(m1).__name__, getattr(m1, "index", None), type(m0).__name__))
    lm.check_consistency(loaded, E, "C08.holes")
    a, b = lm.stripped_tables(project), lm.stripped_tables(loaded)
    for i in range(n):
        if i not in holes and a[i] != (b[i] if i < len(b) else None):
            raise PropertyViolation("C08.holes.tables", "with positions %r emptied, module %d loads with tables %r, saved %r" % (sorted(holes), i, b[i] if i < len(b) else None, a[i]))
    labels.add("file_with_empty_positions")
    if any(type(project.modules[i]).__name__ == "MetaModule" for i in range(min(holes) + 1, n) if project.modules[i] is not None):
        labels.add("container_module_after_empty_position")


def run_dfs(ctx, depth, first):
    """All single-pair histories over 3 nodes, each leaf saved/loaded (as written + SLnK removed)."""
    ops = c07.single_ops(3)
    count = 0
    nontriv = 0

    def rec(history, d):
        nonlocal count, nontriv
        for oi, op in enumerate(ops):
            if d == 0 and oi != first:
                continue
            h2 = history + [op]
            world = lm.World(n_initial=2, types=["Amplifier", "MultiCtl"])
            E = set()
            labels = set()
            try:
                for a, b, dis in h2:
                    c07.apply_single(world, a, b, dis, 2)
                    (E.discard if dis else E.add)((a, b))
                data, loaded = compare_saved(world.project, E, labels, "dfs")
                check_variants(data, E, {"drop": "all", "mask": 0, "terminate": bool(oi % 2)}, labels)
            except PropertyViolation as v:
                ctx.check(False, v.sub_oracle, v.detail, key=v.sub_oracle, recipe={"op": "dfs", "history": [list(x) for x in h2]})
            count += 1
            if labels & {"freed_slot_middle_saved", "cycle_saved"}:
                nontriv += 1
            if d + 1 < depth:
                rec(h2, d + 1)

    rec([], 0)
    ctx.case(count)
    ctx.mark_nontrivial_count("dfs_first%d" % first, nontriv)
    ctx.label("dfs")
    ctx.sample({"op": "dfs", "first": list(ops[first]), "depth": depth, "histories": count})


def run_shard(ctx, desc):
    if desc["kind"] == "interpreters":
        from vlib import subproc

        here = fixed_link_digests()
        for name, d in here.items():
            # in this process the loaded tables equal the saved ones (the ordinary oracle, once more on the fixed set)
            ctx.check(d.endswith(":same"), "C08.fixed_histories", "history %s: %s" % (name, d), key="C08.fixed_histories", recipe={"op": "interpreter", "variant": "plain"})
        subproc.digests_agree(ctx, "C08", "checks.c08", "fixed_link_digests", desc["variants"])
        return
    if desc["kind"] == "dfs":
        run_dfs(ctx, desc["depth"], desc["first"])
        return

    def body(case):
        ctx.case()
        labels = run_case(ctx, case)
        ctx.label(*labels)
        if case.get("base"):
            ctx.label("modules_at_positions_above_256")
        if case.get("sunvox_version") and tuple(case["sunvox_version"]) < (1, 9, 5, 0):
            ctx.label("written_as_old_version")
        if labels & {"freed_slot_middle_saved", "cycle_saved", "fan_in3_saved", "variant_subset"}:
            ctx.mark_nontrivial(case)
        ctx.sample(case)

    run_property(ctx, c08_case(desc["max_modules"], desc["max_ops"], big=desc.get("big", False), wide=desc.get("wide", False)), body, desc["examples"], tag="ops_big" if desc.get("big") else "ops")


def replay(ctx, doc):
    r = doc["recipe"]
    if r.get("op") == "interpreter":
        from vlib import subproc
        from vlib.harness import Ctx

        c2 = Ctx(ctx.prop, ctx.tier, ctx.seed, 0, 1, [])
        subproc.digests_agree(c2, "C08", "checks.c08", "fixed_link_digests", [r["variant"]])
        if c2.failures:
            raise PropertyViolation(c2.failures[0]["sub_oracle"], c2.failures[0]["detail"], c2.failures[0]["key"])
        return
    if "case" in r:
        run_case(ctx, r["case"])
    elif r.get("op") == "dfs":
        world = lm.World(n_initial=2, types=["Amplifier", "MultiCtl"])
        E = set()
        for a, b, dis in r["history"]:
            c07.apply_single(world, a, b, bool(dis), 2)
            (E.discard if dis else E.add)((a, b))
        data, loaded = compare_saved(world.project, E, set(), "dfs")
        check_variants(data, E, {"drop": "all", "mask": 0, "terminate": False}, set())
