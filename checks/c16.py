"""C16 - Sampler instruments keep samples, envelopes and maps bit-exact."""

from __future__ import annotations

import os
import struct
from io import BytesIO

from hypothesis import strategies as st

from vlib import iovariants, build, chunktools, snapshot, specmodel
from vlib import strategies as vs
from vlib.harness import REPO, PropertyViolation, run_property

PROPERTY_ID = "C16"
LEVEL = "exploration"
RULE = (
    "Hypothesis generates Sampler recipes: sample slot subsets of the 128 slots (edge-biased 0,1,2,63,126,127; one Sample object may sit in several slots), arbitrary data bytes (incl. "
    "lengths that are not a multiple of the frame size), 3 formats x 2 channel layouts, every Sample field over its struct width, all 7 "
    "envelopes with 0..64 points (+ boundary probes 12/13/255/256/300 points and indices 255/256/65535), flags, 119-entry note maps, vibrato / "
    "fadeout, editor fields, version fields, embedded effect, common fields/controllers/options; both contexts and clone(). Legacy variants: "
    "generated and fixture instruments re-encoded with a foreign signature, and with the envelope chunks removed (pre-envelope layout). Oracle: "
    "snapshot equality after save/load and clone; an independent decode of the written instrument record, sample records and envelope chunks "
    "at their documented offsets equals the object's values; legacy conversion computed independently from the record bytes; legacy "
    "instruments keep their data across save/load; plus edit histories (load - edit samples / envelopes / map / effect in place, optionally saving in between - save - load). non-trivial = a sample at index > 0, a non-default envelope, or non-zero editor fields"
    ' Also (added while the seeded-change rounds of DESIGN section 9 ran): Also: one Sample object in several slots, format byte patterns and white-space tails in names / maps / data, large samples, failed saves in the past, repeated saves / write_to variants / clone of loaded legacy instruments.'
)
RULE += " Rounds 12-14 of DESIGN section 9 added: files re-encoded with the older 40-byte sample records, sample fields assigned after loading; a fixed set of instruments in 12 differently started interpreters; probes with one envelope empty / switched off next to envelopes the pre-envelope fields cannot hold."
ASSUMPTIONS = [
    "instrument record layout (400 bytes) from the struct comments quoted in sampler.py + the offsets in docs/sunvox-file-format.rst; sample record 44 bytes (start_pos at 0x28)",
    "legacy y conversion: y_old * 0x200 + range minimum, point count from the header",
    "legacy mirror fields in the record are 8-bit; values above 255 are not required to be mirrored",
]
REQUIRED_LABELS = {
    "quick": ["edit_history", "sample_index_gt0", "env_nondefault", "editor_fields", "effect", "note_map", "ctx_synth", "ctx_project", "legacy_signature", "legacy_no_envelopes", "odd_data_length", "points_ge_256", "one_sample_object_in_several_slots", "failed_save_in_the_past"],
    "thorough": ["edit_history", "sample_index_gt0", "env_nondefault", "editor_fields", "effect", "note_map", "ctx_synth", "ctx_project", "legacy_signature", "legacy_no_envelopes", "odd_data_length", "points_ge_256", "index_ge_256", "slot_127"],
}


def exhaustive(tier):
    return False


def plan(tier):
    n, per = (14, 80) if tier == "quick" else (14, 1500)
    descs = [{"kind": "random", "examples": per} for _ in range(n)]
    descs.append({"kind": "legacy", "examples": 60 if tier == "quick" else 800})
    descs.append({"kind": "probes"})
    # second generation: load what was saved, edit it in place (samples, envelopes, map, effect; optionally
    # saving in between), save and load again
    for f in ("SamplerEffect", "Sampler", "Sampler"):
        descs.append({"kind": "edit_history", "focus": f, "examples": per})
    # instruments whose sample records have the older, shorter layout (no start position): loaded, a sample field
    # assigned, saved and loaded again
    descs.append({"kind": "short_records", "examples": per})
    from vlib import subproc

    names = sorted(subproc.VARIANTS)
    for i in range(2):
        # a fixed set of instruments (the fixture, its legacy variants, generated ones) loaded and saved in interpreters
        # started in other ways
        descs.append({"kind": "interpreters", "variants": names[i::2]})
    return descs


def fixed_sampler_digests():
    """{name: digest of the loaded state + of the re-saved file} for a fixed set of Sampler files"""
    import hashlib
    import json

    from rv.api import Synth, read_sunvox_file
    from vlib.harness import jsonable

    with open(os.path.join(REPO, "tests", "files", "sampler.sunsynth"), "rb") as f:
        fixture = f.read()
    files = {"fixture": fixture}
    for variant in ("signature", "no_envelopes", "both"):
        files["fixture_" + variant] = legacy_variant_bytes(fixture, variant)[0]
    files["fixture_short_records"] = build.short_sample_records(fixture)[0]
    for k, (fields, spec) in enumerate(build.sampler_record_grid_specs()):
        if k % 29 == 0:
            files["grid_%d" % k] = Synth(build.make_module(spec)).read()
    for k, ms in enumerate(build.big_payload_module_specs()):
        if ms["type"] == "Sampler":
            files["big_%d" % k] = Synth(build.make_module(ms)).read()
    out = {}
    for name, data in files.items():
        try:
            mod = read_sunvox_file(BytesIO(data)).module
            snap = snapshot.snap_module(mod, in_project=False)["payload"]
            out[name] = hashlib.sha256(json.dumps(jsonable(snap), sort_keys=True).encode()).hexdigest()[:16] + ":" + hashlib.sha256(Synth(mod).read()).hexdigest()[:16]
        except Exception as e:  # noqa: BLE001
            out[name] = "raised %s: %s" % (type(e).__name__, str(e)[:80])
    return out


@st.composite
def sampler_spec(draw, probe=None):
    spec = specmodel.load()["Sampler"]
    payload = draw(build.sampler_payload(1))
    if probe:
        which, npts, idx = probe
        lo, hi = (0, 0x8000) if which in ("volume", "fx0") else (-0x4000, 0x4000)
        env = draw(build.envelope(lo, hi, False))
        env["points"] = [[(i * 7) % 65536, lo + (i * 131) % (hi - lo + 1)] for i in range(npts)]
        env["sustain_point"] = idx
        env["loop_start_point"] = min(idx, 65535)
        env["loop_end_point"] = idx
        payload.setdefault("envelopes", {})[which] = env
    return {
        "type": "Sampler",
        "common": draw(build.common_fields(True)),
        "sets": draw(build.controller_sets(spec)),
        "options": draw(build.option_sets(spec)),
        "cmid": draw(build.cmid_sets(spec)),
        "payload": payload,
    }


def labels_of(ms):
    p = ms["payload"]
    labels = set()
    if any(i > 0 for i, _ in p.get("samples", [])):
        labels.add("sample_index_gt0")
    if any(i == 127 for i, _ in p.get("samples", [])):
        labels.add("slot_127")
    if p.get("sample_aliases"):
        labels.add("one_sample_object_in_several_slots")
    for i, sd in p.get("samples", []):
        fs = {"int8": 1, "int16": 2, "float32": 4}[sd["format"]] * (2 if sd["channels"] == "stereo" else 1)
        if (len(sd["data"]) // 2) % fs:
            labels.add("odd_data_length")
    if p.get("envelopes"):
        labels.add("env_nondefault")
        for e in p["envelopes"].values():
            if len(e["points"]) >= 256:
                labels.add("points_ge_256")
            if max(e["sustain_point"], e["loop_start_point"], e["loop_end_point"]) >= 256:
                labels.add("index_ge_256")
    f = p.get("fields", {})
    if f.get("editor_cursor") or f.get("editor_selected_size"):
        labels.add("editor_fields")
    if p.get("effect"):
        labels.add("effect")
    if p.get("note_map"):
        labels.add("note_map")
    return labels


# --- independent decode of the written chunks ----------------------------------------------------


def decode_instrument(rec):
    if len(rec) != 400:
        raise PropertyViolation("C16.file.record_length", "instrument record is %d bytes, documented 400" % len(rec))
    d = {}
    (d["unused1"],) = struct.unpack_from("<I", rec, 0)
    d["instrument_name"] = rec[4:26].rstrip(b"\0")
    d["unused2"], d["samples_num"], d["unused3"] = struct.unpack_from("<HHH", rec, 0x1A)
    (d["unused4"],) = struct.unpack_from("<I", rec, 0x20)
    d["vibrato_type"], d["vibrato_attack"], d["vibrato_depth"], d["vibrato_rate"] = struct.unpack_from("<BBBB", rec, 0xEE)
    (d["volume_fadeout"],) = struct.unpack_from("<H", rec, 0xF2)
    d["volume_old"], d["ins_finetune"], d["unused5"], d["ins_relative_note"] = struct.unpack_from("<BbBb", rec, 0xF4)
    (d["unused6"],) = struct.unpack_from("<I", rec, 0xF8)
    d["sign"] = rec[0xFC:0x100]
    (d["version"],) = struct.unpack_from("<I", rec, 0x100)
    d["note_map"] = list(rec[0x104 : 0x104 + 119])
    d["note_map_pad"] = rec[0x104 + 119 : 0x184]
    d["max_version"], d["editor_cursor"], d["editor_selected_size"] = struct.unpack_from("<Iii", rec, 0x184)
    return d


def decode_sample_meta(b):
    if len(b) < 40:
        raise PropertyViolation("C16.file.sample_record_length", "sample record is %d bytes (< 40)" % len(b))
    d = {}
    d["frames"], d["loop_start"], d["loop_len"] = struct.unpack_from("<III", b, 0)
    d["volume"], d["finetune"], typ, pan, d["relative_note"], d["reserved2"] = struct.unpack_from("<BbBBbB", b, 0xC)
    d["loop_type"] = typ & 3
    d["loop_sustain"] = int(bool(typ & 4))
    d["format_bits"] = typ & 0x30
    d["stereo"] = int(bool(typ & 0x40))
    d["panning"] = pan - 128
    d["name"] = b[0x12 : 0x12 + 22].rstrip(b"\0")
    d["start_pos"] = struct.unpack_from("<I", b, 0x28)[0] if len(b) >= 0x2C else 0
    return d


def decode_envelope(b, ymin):
    flags, ctl, gain, vel = struct.unpack_from("<HBBB", b, 0)
    n, sus, ls, le = struct.unpack_from("<HHHH", b, 8)
    if len(b) != 0x14 + 4 * n:
        raise PropertyViolation("C16.file.envelope_length", "envelope chunk is %d bytes for %d points (expected %d)" % (len(b), n, 0x14 + 4 * n))
    pts = [list(struct.unpack_from("<HH", b, 0x14 + 4 * i)) for i in range(n)]
    return {
        "enable": flags & 1,
        "sustain": (flags >> 1) & 1,
        "loop": (flags >> 2) & 1,
        "ctl_index": ctl,
        "gain_pct": gain,
        "velocity": vel,
        "sustain_point": sus,
        "loop_start_point": ls,
        "loop_end_point": le,
        "points": [[x, y + ymin] for x, y in pts],
    }


ENV_CHNM = {0x102: ("volume_envelope", 0), 0x103: ("panning_envelope", -0x4000), 0x104: ("pitch_envelope", -0x4000)}


def check_file(data, context, snap_payload):
    chunks = chunktools.parse(data)
    head, pats, mods, tail = chunktools.module_sections(chunks)
    sec = mods[-1] if context == "synth" else mods[1]
    by = chunktools.module_chunks_by_chnm(sec)
    chnk = [struct.unpack("<I", p)[0] for cid, p in sec if cid == b"CHNK"]
    if not chnk or any(num >= chnk[0] for num in by):
        raise PropertyViolation("C16.file.chnk", "CHNK %r does not cover the chunk numbers %r" % (chnk, sorted(by)[-3:]))
    if 0 not in by:
        raise PropertyViolation("C16.file.no_instrument_record", "no chunk 0")
    ins = decode_instrument(by[0]["CHDT"])
    sp = snap_payload
    if ins["sign"] != b"PMAS":
        raise PropertyViolation("C16.file.signature", "signature at 0xFC is %r" % ins["sign"])
    for k in ("unused1", "unused2", "unused3", "unused4", "unused5", "unused6", "volume_old", "ins_finetune", "ins_relative_note", "version", "max_version", "editor_cursor", "editor_selected_size", "vibrato_attack", "vibrato_depth", "vibrato_rate", "volume_fadeout"):
        if ins[k] != sp[k]:
            raise PropertyViolation("C16.file.record_field", "record field %s is %r in the file, object has %r" % (k, ins[k], sp[k]), key="C16.file.record_field:" + k)
    if ins["vibrato_type"] != sp["vibrato_type"][1]:
        raise PropertyViolation("C16.file.record_field", "vibrato_type %r vs %r" % (ins["vibrato_type"], sp["vibrato_type"]), key="C16.file.record_field:vibrato_type")
    if ins["instrument_name"].hex() != sp["instrument_name"]["__bytes__"]:
        raise PropertyViolation("C16.file.record_field", "instrument_name %r vs %r" % (ins["instrument_name"], sp["instrument_name"]), key="C16.file.record_field:instrument_name")
    if ins["note_map"] != sp["note_samples"]:
        raise PropertyViolation("C16.file.note_map", "note map at 0x104 differs from the object's map")
    present = [i for i, s in enumerate(sp["samples"]) if s is not None]
    want_num = (present[-1] + 1) if present else 0
    if ins["samples_num"] != want_num:
        raise PropertyViolation("C16.file.samples_num", "samples_num %d, expected %d" % (ins["samples_num"], want_num))
    for i in range(128):
        s = sp["samples"][i]
        has = (2 * i + 1) in by or (2 * i + 2) in by
        if (s is not None) != has:
            raise PropertyViolation("C16.file.sample_slots", "sample slot %d: object %s, file %s" % (i, "present" if s else "empty", "present" if has else "absent"))
        if s is None:
            continue
        if (2 * i + 1) not in by or (2 * i + 2) not in by:
            raise PropertyViolation("C16.file.sample_chunks", "slot %d lacks its config or data chunk" % i)
        meta = decode_sample_meta(by[2 * i + 1]["CHDT"])
        dat = by[2 * i + 2]
        if dat["CHDT"].hex() != s["data"]["__bytes__"]:
            raise PropertyViolation("C16.file.sample_data", "slot %d PCM bytes differ" % i)
        fmt = s["format"][1]
        ch = s["channels"][1]
        fsz = {1: 1, 2: 2, 4: 4}[fmt] * (2 if ch else 1)
        exp = {
            "frames": len(dat["CHDT"]) // fsz,
            "loop_start": s["loop_start"],
            "loop_len": s["loop_len"],
            "volume": s["volume"],
            "finetune": s["finetune"],
            "relative_note": s["relative_note"],
            "reserved2": s["reserved2"],
            "loop_type": s["loop_type"][1],
            "loop_sustain": s["loop_sustain"],
            "format_bits": {1: 0x00, 2: 0x10, 4: 0x20}[fmt],
            "stereo": 1 if ch else 0,
            "panning": s["panning"],
            "name": bytes.fromhex(s["name"]["__bytes__"]),
            "start_pos": s["start_pos"],
        }
        for k, v in exp.items():
            if meta[k] != v:
                raise PropertyViolation("C16.file.sample_field", "slot %d field %s is %r in the file, object has %r" % (i, k, meta[k], v), key="C16.file.sample_field:" + k)
        if dat["CHFF"] != (fmt | ch) or dat["CHFR"] != s["rate"]:
            raise PropertyViolation("C16.file.sample_format", "slot %d CHFF/CHFR %r/%r, object format %r channels %r rate %r" % (i, dat["CHFF"], dat["CHFR"], fmt, ch, s["rate"]))
    for num, (key, ymin) in ENV_CHNM.items():
        if num not in by:
            raise PropertyViolation("C16.file.envelope_missing", "no envelope chunk 0x%x" % num)
        e = decode_envelope(by[num]["CHDT"], ymin)
        if e != sp[key]:
            d = snapshot.diff(sp[key], e)
            raise PropertyViolation("C16.file.envelope", "%s in file differs: %r" % (key, d[:3]), key="C16.file.envelope:" + key)
    for j in range(4):
        num = 0x105 + j
        if num not in by:
            raise PropertyViolation("C16.file.envelope_missing", "no envelope chunk 0x%x" % num)
        e = decode_envelope(by[num]["CHDT"], 0)
        if e != sp["effect_control_envelopes"][j]:
            raise PropertyViolation("C16.file.envelope", "effect envelope %d in file differs" % j, key="C16.file.envelope:fx")
    if (sp["effect"] is not None) != (0x10A in by):
        raise PropertyViolation("C16.file.effect_chunk", "effect %s but chunk 0x10a %s" % ("set" if sp["effect"] else "unset", "present" if 0x10A in by else "absent"))
    return by


def check_sampler(ctx, ms):
    from rv.api import Project, Synth, read_sunvox_file

    labels = labels_of(ms)
    for context in ("synth", "project"):
        mod = build.make_module(ms)
        if context == "synth":
            container, inp = Synth(mod), False
        else:
            container = Project()
            container.attach_module(mod)
            inp = True
        if len(repr(ms)) % 3 == 0 and build.failed_save_in_past(container, len(repr(ms)) // 3):
            # the library once failed to write this very object (a field did not fit its file field and
            # was corrected since): it writes it completely now
            labels.add("failed_save_in_the_past")
        s0 = snapshot.snap_module(mod, in_project=inp)
        data = container.read()
        check_file(data, context, s0["payload"])
        back = read_sunvox_file(BytesIO(data))
        bmod = back.module if context == "synth" else back.modules[1]
        s1 = snapshot.snap_module(bmod, in_project=inp)
        d = snapshot.diff(s0, s1)
        if d:
            seg = d[0][0].split("/")
            area = seg[2] if len(seg) > 2 and seg[1] == "payload" else seg[1]
            raise PropertyViolation("C16.roundtrip", "%s: %s" % (context, "; ".join("%s: %r -> %r" % x for x in d[:4])), key="C16.roundtrip:" + area)
        labels.add("ctx_" + context)
    mod = build.make_module(ms)
    s0 = snapshot.snap_module(mod, in_project=False)
    c = mod.clone()
    d = snapshot.diff(s0, snapshot.snap_module(c, in_project=False))
    if d:
        raise PropertyViolation("C16.clone", "; ".join("%s: %r -> %r" % x for x in d[:4]))
    return labels


# --- legacy variants ------------------------------------------------------------------------------------


def legacy_expected(rec):
    """Independent conversion of the 12-point header envelopes."""
    out = {}
    for key, base, cnt_off, idx_off, bm_off, ymin in (("volume_envelope", 0x84, 0xE4, 0xE6, 0xEC, 0), ("panning_envelope", 0xB4, 0xE5, 0xE9, 0xED, -0x4000)):
        n = rec[cnt_off]
        pts = []
        for i in range(n):
            x, y = struct.unpack_from("<HH", rec, base + 4 * i)
            pts.append([x, y * 0x200 + ymin])
        bm = rec[bm_off]
        out[key] = {
            "points": pts,
            "sustain_point": rec[idx_off],
            "loop_start_point": rec[idx_off + 1],
            "loop_end_point": rec[idx_off + 2],
            "enable": bm & 1,
            "sustain": (bm >> 1) & 1,
            "loop": (bm >> 2) & 1,
        }
    return out


@st.composite
def legacy_case(draw):
    src = draw(st.sampled_from(["fixture", "generated", "generated"]))
    case = {"src": src, "variant": draw(st.sampled_from(["signature", "no_envelopes", "both"]))}
    if src == "generated":
        ms = draw(sampler_spec())
        # legacy layout can only mirror up to 12 points of the volume/panning envelopes, y in units of 0x200
        for which, lo in (("volume", 0), ("panning", -0x4000)):
            n = draw(st.integers(0, 12))
            e = draw(build.envelope(0, 64, True))
            e["points"] = [[draw(vs.edge_int(0, 65535)), lo + 0x200 * draw(st.integers(0, 64))] for _ in range(n)]
            ms["payload"].setdefault("envelopes", {})[which] = e
        ms["payload"].pop("effect", None)
        case["spec"] = ms
    case["sign"] = draw(st.sampled_from(["XXXX", "\x00\x00\x00\x00", "SAMP"]))
    return case


def legacy_variant_bytes(data, variant, sign="\x00\x00\x00\x00"):
    """Re-encode a Sampler synth file the way older SunVox versions wrote it: foreign signature in the
    instrument record ("signature"), no envelope chunks ("no_envelopes"), or both.  Returns (bytes, record)."""
    chunks = chunktools.parse(data)
    out = []
    rec = None
    i = 0
    while i < len(chunks):
        cid, payload = chunks[i]
        if cid == b"CHNM":
            (num,) = struct.unpack("<I", payload)
            if num == 0:
                rec = bytearray(chunks[i + 1][1])
                if variant in ("signature", "both"):
                    rec[0xFC:0x100] = sign.encode("latin1")
                out.append((cid, payload))
                out.append((b"CHDT", bytes(rec)))
                i += 2
                continue
            if 0x102 <= num <= 0x108 and variant in ("no_envelopes", "both"):
                # drop CHNM + CHDT (+ CHFF/CHFR if any) of the envelope chunk
                i += 1
                while i < len(chunks) and chunks[i][0] in (b"CHDT", b"CHFF", b"CHFR"):
                    i += 1
                continue
        out.append((cid, payload))
        i += 1
    return chunktools.build(out), rec


def run_legacy(ctx, case):
    from rv.api import Synth, read_sunvox_file

    if case["src"] == "fixture":
        with open(os.path.join(REPO, "tests", "files", "sampler.sunsynth"), "rb") as f:
            data = f.read()
    else:
        data = Synth(build.make_module(case["spec"])).read()
    vb, rec = legacy_variant_bytes(data, case["variant"], case["sign"])
    labels = set()
    if case["variant"] in ("signature", "both"):
        labels.add("legacy_signature")
    if case["variant"] in ("no_envelopes", "both"):
        labels.add("legacy_no_envelopes")
    orig = read_sunvox_file(BytesIO(data)).module
    s_orig = snapshot.snap_module(orig, in_project=False)["payload"]
    leg = read_sunvox_file(BytesIO(vb)).module
    s_leg = snapshot.snap_module(leg, in_project=False)["payload"]
    # everything that is not an envelope must load as in the unmodified file
    for k in s_orig:
        if k.endswith("envelope") or k == "effect_control_envelopes":
            continue
        if s_orig[k] != s_leg[k]:
            raise PropertyViolation("C16.legacy.load", "legacy variant %r: %s loads differently: %r" % (case["variant"], k, snapshot.diff(s_orig[k], s_leg[k])[:2]), key="C16.legacy.load:" + k)
    if case["variant"] in ("no_envelopes", "both"):
        exp = legacy_expected(bytes(rec))
        for key, want in exp.items():
            got = s_leg[key]
            for f, v in want.items():
                if got[f] != v:
                    raise PropertyViolation("C16.legacy.conversion", "%s.%s converted to %r, independent computation gives %r" % (key, f, got[f], v), key="C16.legacy.conversion:" + f)
    else:
        for key in ("volume_envelope", "panning_envelope", "pitch_envelope", "effect_control_envelopes"):
            if s_orig[key] != s_leg[key]:
                raise PropertyViolation("C16.legacy.load", "signature-only variant: %s loads differently" % key, key="C16.legacy.load:" + key)
    # save -> load keeps what the legacy instrument carried; the same object saves the same bytes every
    # time, whichever way it is written (read / write_to / clone / inside a project)
    first = Synth(leg).read()
    iovariants.writers_agree(Synth(leg), first, "C16.legacy")
    if Synth(leg).read() != first:
        raise PropertyViolation("C16.legacy.save_repeatable", "legacy variant %r: a later save of the same object writes %d bytes, the first wrote %d" % (case["variant"], len(Synth(leg).read()), len(first)), key="C16.legacy.save_repeatable")
    d = snapshot.diff(s_leg, snapshot.snap_module(leg.clone(), in_project=False)["payload"])
    if d:
        raise PropertyViolation("C16.legacy.clone", "legacy variant %r: clone() after saves: %s" % (case["variant"], "; ".join("%s: %r -> %r" % x for x in d[:3])), key="C16.legacy.clone")
    again = read_sunvox_file(BytesIO(Synth(leg).read())).module
    s_again = snapshot.snap_module(again, in_project=False)["payload"]
    d = snapshot.diff(s_leg, s_again)
    if d:
        raise PropertyViolation("C16.legacy.save_keeps_data", "legacy variant %r: after save/load %s" % (case["variant"], "; ".join("%s: %r -> %r" % x for x in d[:3])), key="C16.legacy.save_keeps_data:" + d[0][0].split("/")[1])
    return labels


def run_edit_history(ctx, desc):
    from checks import c06

    def body(case):
        ctx.case()
        try:
            labels, changed = c06.run_case(ctx, case)
        except PropertyViolation as v:
            raise PropertyViolation("C16.edit_history." + v.sub_oracle.split(".", 1)[1], v.detail, key="C16.edit_history." + v.key.split(".", 1)[1])
        ctx.label("edit_history", *[l for l in labels if l in ("saved_before_edit", "embedded_edit", "sampler_edit", "metamodule_edit")])
        if changed:
            ctx.mark_nontrivial(case)
        if len(repr(case)) < 1000:
            ctx.sample(case)

    run_property(ctx, c06.edit_case(focus=desc["focus"]), body, desc["examples"], tag="edit_history", bucket="edit_history")


SAMPLE_FIELD_VALUES = [("start_pos", 1), ("start_pos", 0x7FFFFFFF), ("finetune", -128), ("relative_note", 127), ("volume", 1), ("panning", -128), ("loop_start", 2), ("loop_len", 1)]


@st.composite
def short_record_case(draw):
    if draw(st.integers(0, 3)) == 0:
        src = {"src": "fixture", "file": "sampler.sunsynth"}
        present = [0, 1, 2]
    else:
        ms = draw(build.module_spec(in_project=False, depth=1, tname="Sampler").filter(lambda m_: m_["payload"].get("samples")))
        src = {"src": "synth", "spec": ms}
        present = [i for i, _ in ms["payload"]["samples"]]
    src["transform"] = "short_sample_records"
    eds = []
    for _ in range(draw(st.integers(1, 2))):
        f, v = draw(st.sampled_from(SAMPLE_FIELD_VALUES))
        eds.append(["mod", -1, "pay", "s_sample_field", draw(st.sampled_from(present)), f, v])
    src["edits"] = eds
    src["saves"] = [draw(st.sampled_from([None, "read", "clone"])) for _ in eds]
    return src


def run_short_records(ctx, desc):
    from checks import c06

    def body(case):
        ctx.case()
        try:
            labels, changed = c06.run_case(ctx, case)
        except PropertyViolation as v:
            raise PropertyViolation("C16.short_records." + v.sub_oracle.split(".", 1)[1], v.detail, key="C16.short_records." + v.key.split(".", 1)[1])
        ctx.label("older_sample_record_layout_edited")
        if changed:
            ctx.mark_nontrivial(case)
        if len(repr(case)) < 1000:
            ctx.sample(case)

    # every field of the list once on the fixture, then generated instruments
    for f, v in SAMPLE_FIELD_VALUES:
        case = {"src": "fixture", "file": "sampler.sunsynth", "transform": "short_sample_records", "edits": [["mod", -1, "pay", "s_sample_field", 1, f, v]], "saves": [None]}
        try:
            body(case)
        except PropertyViolation as v_:
            ctx.check(False, v_.sub_oracle, v_.detail, key=v_.key, recipe={"case": case})
    run_property(ctx, short_record_case(), body, desc["examples"], tag="short_records", bucket="short_records")


def run_shard(ctx, desc):
    if desc["kind"] == "edit_history":
        run_edit_history(ctx, desc)
        return
    if desc["kind"] == "short_records":
        run_short_records(ctx, desc)
        return
    if desc["kind"] == "interpreters":
        from vlib import subproc

        subproc.digests_agree(ctx, "C16", "checks.c16", "fixed_sampler_digests", desc["variants"])
        return
    k = desc["kind"]
    if k == "legacy":

        def body(case):
            ctx.case()
            labels = run_legacy(ctx, case)
            ctx.label(*labels)
            ctx.mark_nontrivial(case)
            if len(repr(case)) < 800:
                ctx.sample(case)

        run_property(ctx, legacy_case(), body, desc["examples"], tag="legacy", bucket="legacy")
        return
    if k == "probes":
        probes = [(w, n, i) for w in ("volume", "panning", "pitch", "fx0") for (n, i) in ((12, 11), (13, 12), (255, 254), (255, 255), (256, 255), (256, 256), (300, 65535))]

        def body(ms):
            ctx.case()
            labels = check_sampler(ctx, ms)
            ctx.label(*labels)
            ctx.mark_nontrivial(ms)

        for pr in probes:
            if not run_property(ctx, sampler_spec(probe=pr), body, 4, tag="probe", bucket="sampler"):
                return
            ctx.sample({"probe": {"envelope": pr[0], "points": pr[1], "index": pr[2]}})
        # an envelope without any point (or switched off and otherwise untouched) next to envelopes holding what the
        # pre-envelope instrument fields could not hold
        odd = {"points": [[0, 100], [64, -4321], [200, 7], [300, 16383]], "enable": True, "sustain": True, "loop": False, "ctl_index": 0, "gain_pct": 100, "velocity": 0, "sustain_point": 2, "loop_start_point": 0, "loop_end_point": 3}
        many = dict(odd, points=[[i * 3, (i * 517) % 0x4000] for i in range(20)], sustain_point=19)

        def with_companions(empty_which, others):
            def f(ms):
                envs = ms["payload"].setdefault("envelopes", {})
                for w, e_ in others.items():
                    envs[w] = dict(e_) if w != "volume" else dict(e_, points=[[x, abs(y)] for x, y in e_["points"]])
                if empty_which:
                    base_ = dict(odd, points=[], enable=False, sustain=False, sustain_point=0, loop_end_point=0)
                    envs[empty_which] = base_
                return ms

            return f

        for empty_which in ("volume", "panning", "pitch", None):
            for others in ({"panning": odd}, {"panning": many}, {"volume": odd, "panning": odd}, {"pitch": odd, "fx0": many}):
                if empty_which in others:
                    continue
                if not run_property(ctx, sampler_spec().map(with_companions(empty_which, others)), body, 3, tag="probe_empty_envelope", bucket="sampler"):
                    return
        ctx.label("envelope_without_points_next_to_full_ones")
        return

    def body(ms):
        ctx.case()
        labels = check_sampler(ctx, ms)
        ctx.label(*labels)
        if labels & {"sample_index_gt0", "env_nondefault", "editor_fields"}:
            ctx.mark_nontrivial(ms)
        if len(repr(ms)) < 1500:
            ctx.sample(ms)

    run_property(ctx, sampler_spec(), body, desc["examples"], tag="sampler", bucket="sampler")


def replay(ctx, doc):
    if doc["recipe"].get("op") == "interpreter":
        from vlib import subproc
        from vlib.harness import Ctx

        c2 = Ctx(ctx.prop, ctx.tier, ctx.seed, 0, 1, [])
        subproc.digests_agree(c2, "C16", "checks.c16", "fixed_sampler_digests", [doc["recipe"]["variant"]])
        if c2.failures:
            raise PropertyViolation(c2.failures[0]["sub_oracle"], c2.failures[0]["detail"], c2.failures[0]["key"])
        return
    if doc["recipe"].get("tag") in ("edit_history", "short_records") or (isinstance(doc["recipe"].get("case"), dict) and doc["recipe"]["case"].get("transform")):
        from checks import c06

        c06.run_case(ctx, doc["recipe"]["case"])
        return
    r = doc["recipe"]
    if r.get("tag") == "legacy":
        run_legacy(ctx, r["case"])
    else:
        check_sampler(ctx, r["case"])
