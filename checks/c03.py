"""C03 - written files conform to the documented SunVox chunk format."""

from __future__ import annotations

from hypothesis import strategies as st

from vlib import iovariants, build, refcodec, snapshot
from vlib.harness import PropertyViolation, run_property

PROPERTY_ID = "C03"
LEVEL = "exploration"
RULE = (
    "every byte string written for Hypothesis-generated projects and synths (the C01/C02 recipe strategies with their own seed stream: all 42 "
    "types swept per shard with all controllers assigned, random modules, MetaModules nested 2-4 levels deep, projects with links/patterns/gaps/embedded projects/samplers) is "
    "decoded by vlib.refcodec, an independent decoder built from docs/sunvox-file-format.rst and the YAML only. Oracle: (1) structural rules "
    "(exact tiling, empty header chunk first, documented chunk order/widths, PEND/SEND termination, SNAM 32 bytes, PDTA = lines x tracks x 8, "
    "one CVAL per attached controller and 8 CMID bytes each, reserved CMID bytes, CHNK covers every CHNM, options chunk covers the highest "
    "option byte with no stray bits, array chunk sizes, 400-byte sampler record etc.); (2) semantic equality: decoded description == snapshot "
    "of the object (field by field, stored<->user conversions from the YAML). distinct = recipe hash; non-trivial as C01/C02"
    " Also (added while the seeded-change rounds of DESIGN section 9 ran): Also decoded: files written through the other writing paths (streams, files opened w / a / r+, compressing files), by deepcopy / pickle copies, from loaded-and-edited objects (C06's generator incl. fixtures, samples resized after loading), with large payloads."
)
RULE += " Rounds 12-14 of DESIGN section 9 added: every third project has a failed save (of the project, or of the export of one attached module as an instrument) in its past."
ASSUMPTIONS = list(refcodec.TRUSTED_BASE) + ["the decoder accepts well-formed chunks the prose does not list (FLGS, SFGS, SLnK) and never demands an undocumented one"]
REQUIRED_LABELS = {
    "quick": ["project", "synth", "payload_nondefault", "options_set", "links", "cells", "neg_min_ctl_at_min", "metamodule_nested_2_levels", "metamodule_nested_3_levels", "written_from_loaded_and_edited_object", "chunk_payload_of_64KiB_or_more"],
    "thorough": ["project", "synth", "payload_nondefault", "options_set", "links", "cells", "neg_min_ctl_at_min", "sampler_with_samples", "metamodule", "gap"] + ["type_" + t for t in build.attachable_types()],
}


def exhaustive(tier):
    return False


def plan(tier):
    n, per = (16, 120) if tier == "quick" else (16, 2000)
    types = build.attachable_types()
    return [{"kind": "random", "examples": per, "sweep": types[i::n], "big": i == 0} for i in range(n)] + [{"kind": "edited", "examples": 25 if tier == "quick" else 400} for _ in range(4)]


nested_meta = build.nested_meta
meta_depth = build.meta_depth


def conform(data, snap, what):
    try:
        dec = refcodec.decode(data)
    except refcodec.FormatError as e:
        raise PropertyViolation("C03.structure." + e.rule, "%s: %s" % (what, e.detail), key="C03.structure." + e.rule)
    from vlib.chunktools import ChunkFormatError

    check_counts(dec, what)
    refcodec.strip_private(dec)
    d = snapshot.diff(dec, snap)
    if d:
        path = d[0][0]
        segs = [s for s in path.split("/") if s and not s.isdigit()]
        raise PropertyViolation(
            "C03.semantic",
            "%s: the independent decoder reads (file) vs the object has (public state): %s" % (what, "; ".join("%s: %r vs %r" % x for x in d[:4])),
            key="C03.semantic:" + "/".join(segs[:4]),
        )
    return dec


def check_counts(dec, what):
    mods = dec["modules"] if dec["kind"] == "project" else [dec["module"]]
    for m in mods:
        walk_module(m, what)


def walk_module(m, what):
    if m is None:
        return
    if m["_n_cvals"] != m["_n_expected_cvals"]:
        raise PropertyViolation("C03.structure.cval_per_attached_controller", "%s: %s has %d CVAL chunks, %d attached controllers" % (what, m["mtype"], m["_n_cvals"], m["_n_expected_cvals"]), key="C03.structure.cval_per_attached_controller")
    pl = m.get("payload") or {}
    if m["class"] == "MetaModule":
        for sub in pl["project"]["modules"]:
            pass  # nested modules were validated by the recursive decode (private counters stripped there)
    if m["class"] == "Sampler" and pl.get("effect"):
        pass


def check_project_spec(ctx, spec):
    p = build.make_project(spec)
    if len(repr(spec)) % 3 == 0 and build.failed_save_in_past(p, len(repr(spec)) // 3):
        # the object has a save (of the project, or the export of one of its modules) in its past that failed
        ctx.label("failed_save_in_the_past")
    snap = snapshot.snap_project(p)
    data = p.read()
    # "every file the library writes": the other ways of writing (write_to a stream / a file opened
    # for writing, appending or updating) produce these same bytes, which are decoded below
    iovariants.writers_agree(p, data, "C03")
    iovariants.copies_agree(p, data, "C03")
    try:
        conform(data, snap, "project")
    except Exception as e:
        from vlib.chunktools import ChunkFormatError

        if isinstance(e, ChunkFormatError):
            raise PropertyViolation("C03.structure.stream_tiles", "project: %s" % e, key="C03.structure.stream_tiles")
        raise


def check_module_spec(ctx, ms):
    from rv.api import Synth
    from vlib.chunktools import ChunkFormatError

    mod = build.make_module(ms)
    s = Synth(mod)
    snap = snapshot.snap_synth(s)
    data = s.read()
    iovariants.writers_agree(s, data, "C03")
    iovariants.copies_agree(s, data, "C03")
    try:
        conform(data, snap, "synth %s" % ms["type"])
    except ChunkFormatError as e:
        raise PropertyViolation("C03.structure.stream_tiles", "synth: %s" % e, key="C03.structure.stream_tiles")


def check_edited_case(ctx, case):
    """A file is loaded (fixture or generated), edited through the API, and written again: that file too
    is decoded by the independent decoder and compared with the edited object."""
    from checks import c05, c06
    from vlib import edits

    obj = c05.load(c06.base_bytes(case))
    saves = case.get("saves") or [None] * len(case["edits"])
    for e, pre in zip(case["edits"], saves):
        if pre == "read":
            obj.read()
        edits.apply_edit(obj, e)
    # in every second case the recorded material of the Samplers in the object changes size after the load
    # (data replaced by a shorter / longer take, another sample format)
    if len(repr(case)) % 2 == 0:
        mods = [obj.module] if type(obj).__name__ == "Synth" else [m_ for m_ in obj.modules if m_ is not None]
        for m_ in mods:
            if type(m_).__name__ == "Sampler":
                for smp in m_.samples:
                    if smp is not None:
                        smp.data = bytes(smp.data)[: len(smp.data) // 2] if len(smp.data) > 8 else bytes(smp.data) + bytes(range(24))
                        smp.format = m_.Format.int16 if smp.format != m_.Format.int16 else m_.Format.int8
                        ctx.label("sample_resized_after_load")
                        break
    snap = snapshot.snap(obj)
    data = obj.read()
    from vlib.chunktools import ChunkFormatError

    try:
        conform(data, snap, "edited %s" % case["src"])
    except ChunkFormatError as e:
        raise PropertyViolation("C03.structure.stream_tiles", "edited object: %s" % e, key="C03.structure.stream_tiles")


def run_shard(ctx, desc):
    from checks import c01

    if desc.get("kind") == "edited":
        from checks import c06

        def body_e(case):
            ctx.case()
            check_edited_case(ctx, case)
            ctx.label("written_from_loaded_and_edited_object")
            ctx.mark_nontrivial(case)
            if len(repr(case)) < 1500:
                ctx.sample(case)

        for focus in (None, "Sampler", "MetaModule"):
            if not run_property(ctx, c06.edit_case(focus=focus), body_e, desc["examples"], tag="edited_%s" % focus, bucket="edited"):
                return
        return

    depth = 1 if ctx.tier == "quick" else 2

    def body_m(ms):
        ctx.case()
        check_module_spec(ctx, ms)
        labels = build.module_labels(ms) | {"synth"}
        d = meta_depth(ms)
        if d >= 2:
            labels.add("metamodule_nested_%d_levels" % min(d, 3))
        ctx.label(*labels)
        if build.module_nontrivial(labels):
            ctx.mark_nontrivial(ms)
        if len(repr(ms)) < 1200:
            ctx.sample(ms)

    def body_p(spec):
        ctx.case()
        check_project_spec(ctx, spec)
        labels = c01.project_labels(spec) | {"project"}
        ctx.label(*labels)
        if c01.nontrivial(spec, labels):
            ctx.mark_nontrivial(spec)
        if len(repr(spec)) < 2000:
            ctx.sample(spec)

    # objects with large chunk payloads (64 KiB, more than 1 MiB), alone and inside a project - once per run
    if desc.get("big"):
        for ms in build.big_payload_module_specs():
            ctx.case()
            check_module_spec(ctx, ms)
            check_project_spec(ctx, {"modules": [ms], "patterns": [], "fields": {}, "links": [["c", 1, 0]]})
            ctx.label("chunk_payload_of_64KiB_or_more")
            ctx.mark_nontrivial(["big", ms["type"], len(repr(ms))])
    # containers nested several levels deep (MetaModule in MetaModule in MetaModule; Sampler effects inside)
    if not run_property(ctx, nested_meta(), body_m, 10 if ctx.tier == "quick" else 60, tag="nested", bucket="synth"):
        return
    for t in desc["sweep"]:
        if not run_property(ctx, build.module_spec(in_project=True, depth=depth, tname=t, dense=True), body_m, 8 if ctx.tier == "quick" else 40, tag="sweep_" + t, bucket="synth"):
            return
    if not run_property(ctx, build.module_spec(in_project=True, depth=depth), body_m, desc["examples"] // 2, tag="synth", bucket="synth"):
        return
    run_property(ctx, build.project_spec(depth=depth, max_modules=6 if ctx.tier == "quick" else 16, max_patterns=3, top=True), body_p, desc["examples"] // 2, tag="project", bucket="project")


def replay(ctx, doc):
    r = doc["recipe"]
    if str(r.get("tag", "")).startswith("edited"):
        check_edited_case(ctx, r["case"])
        return
    if r.get("tag") == "project":
        check_project_spec(ctx, r["case"])
    else:
        check_module_spec(ctx, r["case"])
