"""C02 - every module type survives a .sunsynth round trip and Module.clone()."""

from __future__ import annotations

from io import BytesIO

from hypothesis import strategies as st

from vlib import iovariants, build, snapshot
from vlib.harness import PropertyViolation, run_property

PROPERTY_ID = "C02"
LEVEL = "exploration"
RULE = (
    "Hypothesis generates module recipes (type, common fields, controller assignments incl. unit-dependent ones under any unit and in any order, "
    "constructor keywords, options, MIDI bindings, type-specific payload: curves, waveforms, harmonics, mapping tables, Vorbis data, sampler "
    "samples/envelopes/effect, embedded projects) for all 42 non-Output types; a guaranteed sweep visits every type per shard in addition to the "
    "random draw. Each module is checked in both contexts (Synth(mod) and inside a one-module project), through clone(), and the two contexts are "
    "compared with each other (write_to vs read, path vs stream loads too); the first clone and the first loaded copy are then edited inside their containers and the original is cloned / its file loaded again (later copies must equal the original); a family nests MetaModules 2-4 levels deep; half of the cases continue with a second recipe applied to the same, already saved and cloned objects (second generation) and to the clone and the loaded copy, which are saved and cloned in turn. distinct = recipe hash; non-trivial = a controller at a range end / negative-min controller at its minimum / "
    "unit-dependent controller set, or a non-default payload, option or binding"
    ' Also (added while the seeded-change rounds of DESIGN section 9 ran): Also: files written as older SunVox versions in the project context, failed saves in the past, an empty nested synth refused and then completed, large payloads, alternative writers / loaders (offset streams, mmap, unbuffered files, paths) and Python copies.'
)
RULE += " Rounds 12-14 of DESIGN section 9 added: shards of their own for Sampler, MetaModule, MultiSynth, SpectraVoice; FMX waveforms with +-inf, NaN, largest finite and denormal samples; loading also through gzip / bz2 / lzma file objects."
ASSUMPTIONS = [
    "equality is on vlib.snapshot's public-attribute snapshot with its documented normalisations",
    "x, y, layer and visualization are not part of stand-alone synth files (documented) and are excluded from the synth-context comparison",
]
# classes of cases that are produced deterministically: their absence is a harness error (see vlib.harness)
HARD_LABELS = ['empty_synth', 'empty_effect_then_completed']
REQUIRED_LABELS = {
    "quick": ["neg_min_ctl_at_min", "ctl_at_range_end", "dependent_ctl_set", "payload_nondefault", "options_set", "cmid_set", "empty_synth", "second_generation", "earlier_copy_edited_then_copied_again", "metamodule_nested_2_levels", "empty_effect_then_completed"],
    "thorough": ["neg_min_ctl_at_min", "ctl_at_range_end", "dependent_ctl_set", "unit_changed", "payload_nondefault", "options_set", "cmid_set", "empty_synth", "sampler_with_samples", "sampler_with_effect", "metamodule_user_ctls", "name_straddles_32"]
    + ["type_" + t for t in build.attachable_types()],
}


def exhaustive(tier):
    return False


def plan(tier):
    n, per = (16, 200) if tier == "quick" else (16, 3000)
    descs = [{"kind": "random", "examples": per, "sweep": build.attachable_types()[i::n]} for i in range(n)]
    descs.append({"kind": "empty_synth"})
    # the types with the largest type-specific payloads get shards of their own
    for t in ("Sampler", "Sampler", "MetaModule", "MultiSynth", "SpectraVoice"):
        descs.append({"kind": "heavy", "type": t, "examples": per // 2})
    return descs


def expect_equal(a, b, sub, what):
    d = snapshot.diff(a, b)
    if d:
        raise PropertyViolation(sub, "%s: %s" % (what, "; ".join("%s: %r -> %r" % x for x in d[:4])), key=sub + ":" + d[0][0].split("/")[1] if "/" in d[0][0] else sub)


def check_module_spec(ctx, ms):
    from rv.api import Project, Synth, read_sunvox_file

    tname = ms["type"]
    # (a) synth context
    mod = build.make_module(ms)
    if len(repr(ms)) % 4 == 0 and build.failed_save_in_past(Synth(mod), len(repr(ms))):
        ctx.label("failed_save_in_the_past")
    s0 = snapshot.snap_module(mod, in_project=False)
    data1 = Synth(mod).read()
    data2 = Synth(mod).read()
    if data1 != data2:
        raise PropertyViolation("C02.synth.deterministic", "%s: two saves of the same synth differ" % tname)
    s0b = snapshot.snap_module(mod, in_project=False)
    expect_equal(s0, s0b, "C02.synth.save_is_pure", "%s changed by saving" % tname)
    back = read_sunvox_file(BytesIO(data1))
    if type(back).__name__ != "Synth" or back.module is None:
        raise PropertyViolation("C02.synth.loads", "%s: loading the synth gave %r" % (tname, back))
    if type(back.module) is not type(mod):
        raise PropertyViolation("C02.synth.type", "%s came back as %s" % (tname, type(back.module).__name__))
    s1 = snapshot.snap_module(back.module, in_project=False)
    expect_equal(s0, s1, "C02.synth.roundtrip", "%s synth round trip" % tname)
    iovariants.writers_agree(Synth(mod), data1, "C02")
    iovariants.loaders_agree(data1, s0, lambda o: snapshot.snap_module(o.module, in_project=False), "C02", ".sunsynth")
    iovariants.clone_agrees(Synth(mod), s0, lambda o: snapshot.snap_module(o.module, in_project=False), "C02")
    # (b) clone
    c = mod.clone()
    if type(c) is not type(mod) or c is mod:
        raise PropertyViolation("C02.clone.type", "%s.clone() returned %r" % (tname, c))
    expect_equal(s0, snapshot.snap_module(c, in_project=False), "C02.clone", "%s clone()" % tname)
    expect_equal(s0, snapshot.snap_module(mod, in_project=False), "C02.clone.original_untouched", "%s changed by clone()" % tname)
    # (b2) the copies obtained so far are edited - values inside the containers they hold included - and
    # the unchanged original is cloned / its file is loaded once more: the later copies equal the
    # original, whatever happened to the earlier ones
    changed = build.scribble_nested(c, 1) + build.scribble_nested(back.module, 2)
    if ms.get("then"):
        # the copies (a clone and a loaded module - objects that came out of the reader) are edited
        # through the API and must save what they now hold
        for how, target in (("clone", c), ("loaded", back.module)):
            build.apply_spec(target, dict(ms["then"], _ctor_as_sets=True))
            g0 = snapshot.snap_module(target, in_project=False)
            again = read_sunvox_file(BytesIO(Synth(target).read())).module
            expect_equal(g0, snapshot.snap_module(again, in_project=False), "C02.second_generation.on_" + how, "%s: %s copy edited and saved" % (tname, how))
            expect_equal(g0, snapshot.snap_module(target.clone(), in_project=False), "C02.second_generation.on_%s.clone" % how, "%s: %s copy edited and cloned" % (tname, how))
        changed += 1
    if changed:
        ctx.label("earlier_copy_edited_then_copied_again")
        expect_equal(s0, snapshot.snap_module(mod, in_project=False), "C02.copy_edit.original_untouched", "%s changed by editing its clone / loaded copy" % tname)
        expect_equal(s0, snapshot.snap_module(mod.clone(), in_project=False), "C02.clone.repeatable", "%s second clone() after the first clone was edited" % tname)
        expect_equal(s0, snapshot.snap_module(read_sunvox_file(BytesIO(data1)).module, in_project=False), "C02.synth.reload_repeatable", "%s synth file loaded again after the first loaded copy was edited" % tname)
    # (c) project context (a fresh module built from the same recipe)
    mod2 = build.make_module(ms)
    p = Project()
    ver = [None, (1, 9, 4, 2), None, (1, 7, 0, 0), None, (2, 0, 0, 0)][len(repr(ms)) % 6]
    if ver:
        p.sunvox_version = ver  # the project is written as a file of an older SunVox version
    p.attach_module(mod2)
    sp0 = snapshot.snap_module(mod2, in_project=True)
    pdata = p.read()
    q = read_sunvox_file(BytesIO(pdata))
    if len(q.modules) < 2 or type(q.modules[1]) is not type(mod2):
        raise PropertyViolation("C02.project.type", "%s in a project came back as %r" % (tname, q.modules[1:] and type(q.modules[1]).__name__))
    sp1 = snapshot.snap_module(q.modules[1], in_project=True)
    expect_equal(sp0, sp1, "C02.project.roundtrip", "%s project round trip" % tname)
    # (e) second generation on the same in-memory objects: they have been saved (and cloned) already;
    # now they are edited again through the API (in-place payload edits included) and must still
    # save what they hold - nothing from the first serialisation may be reused
    ms2 = ms.get("then")
    if ms2:
        for context, target, container in (("synth", mod, Synth(mod)), ("project", mod2, p)):
            build.apply_spec(target, dict(ms2, _ctor_as_sets=True))
            inp = context == "project"
            g0 = snapshot.snap_module(target, in_project=inp)
            back2 = read_sunvox_file(BytesIO(container.read()))
            bm = back2.module if context == "synth" else back2.modules[1]
            expect_equal(g0, snapshot.snap_module(bm, in_project=inp), "C02.second_generation." + context, "%s edited after it had been saved once" % tname)
    # (d) the two writers agree on everything that is in both kinds of file
    common = dict(sp1)
    for k in ("x", "y", "layer", "visualization", "links"):
        common.pop(k, None)
    expect_equal(s1, common, "C02.contexts_agree", "%s: synth vs project context" % tname)


from hypothesis import strategies as _st


@_st.composite
def spec_with_followup(draw, **kw):
    ms = draw(build.module_spec(**kw))
    if draw(_st.booleans()):
        ms["then"] = draw(build.module_spec(in_project=kw.get("in_project", True), depth=0 if ms["type"] in ("MetaModule", "Sampler") else 1, tname=ms["type"]))
    return ms


def run_shard(ctx, desc):
    from rv.api import Synth
    from rv.errors import EmptySynthError

    if desc["kind"] == "empty_synth":
        for i in range(3):
            ctx.case()
            s = Synth()
            f = BytesIO()
            err = None
            try:
                if i == 0:
                    s.read()
                elif i == 1:
                    s.write_to(f)
                else:
                    s.clone()
            except Exception as e:  # noqa: BLE001
                err = e
            ctx.check(isinstance(err, EmptySynthError), "C02.empty_synth.refuses", "Synth() without module: expected EmptySynthError, got %r" % err, recipe={"op": "empty_synth", "how": i})
            ctx.check(f.getvalue() == b"", "C02.empty_synth.writes_nothing", "Synth() wrote %d bytes before refusing" % len(f.getvalue()), recipe={"op": "empty_synth", "how": i})
            ctx.label("empty_synth")
            ctx.mark_nontrivial(["empty_synth", i])
        # an empty synth nested in a container: a Sampler whose effect has no module yet refuses to be
        # written, whichever way, writes nothing half-way into the caller's stream... and once the effect
        # has its module the very same Sampler saves completely
        from rv.api import Project, m, read_sunvox_file

        for how in range(4):
            ctx.case()
            sm = m.Sampler()
            sm.effect = Synth()
            err = None
            try:
                if how == 0:
                    Synth(sm).read()
                elif how == 1:
                    sm.clone()
                elif how == 2:
                    p = Project()
                    p.attach_module(sm)
                    p.read()
                else:
                    Synth(sm).write_to(BytesIO())
            except Exception as e:  # noqa: BLE001
                err = e
            ctx.check(isinstance(err, EmptySynthError), "C02.empty_synth.nested_refuses", "Sampler with a module-less effect (%d): expected EmptySynthError, got %r" % (how, err), recipe={"op": "empty_effect", "how": how})
            for attempt in range(2):
                try:
                    Synth(sm).read()
                except EmptySynthError:
                    pass
            sm.effect.module = m.Echo(delay=77)
            for again in range(2):
                if how == 2:
                    back = read_sunvox_file(BytesIO(sm.parent.read())).modules[1]
                elif how == 1:
                    back = sm.clone()
                else:
                    back = read_sunvox_file(BytesIO(Synth(sm).read())).module
                ok = back.effect is not None and back.effect.module is not None and type(back.effect.module).__name__ == "Echo" and back.effect.module.delay == 77
                ctx.check(ok, "C02.empty_synth.then_completed", "Sampler whose effect got its module after a refused save (%d, save %d): effect comes back as %r" % (how, again, back.effect and back.effect.module), recipe={"op": "empty_effect", "how": how})
            ctx.label("empty_effect_then_completed")
            ctx.mark_nontrivial(["empty_effect", how])
        ctx.sample({"op": "empty_synth"})
        return

    def body(ms):
        ctx.case()
        check_module_spec(ctx, ms)
        labels = build.module_labels(ms)
        if ms.get("then"):
            labels = labels | {"second_generation"}
        ctx.label(*labels)
        if build.module_nontrivial(labels):
            ctx.mark_nontrivial(ms)
        if len(repr(ms)) < 1500:
            ctx.sample(ms)

    depth = 1 if ctx.tier == "quick" else 2
    if desc["kind"] == "heavy":
        run_property(ctx, spec_with_followup(in_project=True, depth=depth, tname=desc["type"], dense=True), body, desc["examples"], tag="heavy_" + desc["type"], bucket="module")
        ctx.label("heavy_" + desc["type"])
        return

    def body_deep(ms):
        body(ms)
        ctx.label("metamodule_nested_%d_levels" % min(3, build.meta_depth(ms)))

    if desc.get("sweep") and "Amplifier" in desc["sweep"]:
        for ms in build.big_payload_module_specs():
            body(ms)
            ctx.label("chunk_payload_of_64KiB_or_more")
    if not run_property(ctx, build.nested_meta(max_levels=4), body_deep, 4 if ctx.tier == "quick" else 30, tag="deep", bucket="module"):
        return
    # guaranteed sweep of this shard's share of the 42 types, then the random draw
    for t in desc["sweep"]:
        if not run_property(ctx, spec_with_followup(in_project=True, depth=depth, tname=t, dense=True), body, 12 if ctx.tier == "quick" else 60, tag="sweep_" + t, bucket="module"):
            return
    run_property(ctx, spec_with_followup(in_project=True, depth=depth), body, desc["examples"], tag="random", bucket="module")


def replay(ctx, doc):
    r = doc["recipe"]
    check_module_spec(ctx, r["case"])
