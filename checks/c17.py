"""C17 - objects are isolated: no hidden shared state between instances or clones."""

from __future__ import annotations

from io import BytesIO

from hypothesis import strategies as st

from vlib import build, edits, snapshot, specmodel
from vlib.harness import PropertyViolation, run_property

PROPERTY_ID = "C17"
LEVEL = "exploration"
RULE = (
    "Hypothesis generates pairs (A, B): A from a module recipe (any of the 42 types, wrapped in a Synth) or a project recipe; B obtained by "
    "independent construction from the same recipe, from a different recipe/type, by cloning A (Module.clone / Container.clone), or by loading "
    "the same bytes twice. Then 1..12 (quick) / 1..30 (thorough) mutations are applied to A, drawn from the attribute catalogue of C06 (every "
    "controller, option, binding, payload element mutated in place: curve/waveform elements, envelope points appended, mapping fields, samples, "
    "note map, note cells, project fields) plus link operations, optionally followed by save/load of A; for clones also the reverse direction "
    "(mutate B, observe A). Oracle: snapshot(B) and B's saved bytes are identical before and after every step; an object of A's type (and an "
    "unrelated Amplifier) constructed after the mutations equals, in state and saved bytes, one constructed at process start before any case was generated. non-trivial = the mutation list contains an in-place element "
    "mutation of a list-valued payload"
    " Also (added while the seeded-change rounds of DESIGN section 9 ran): Also: B = copy.deepcopy(A), a copies shard per payload type (both directions), a clone of a MetaModule's embedded project edited on its own, and bystander objects (legacy Sampler, short / surplus-CVAL files, fixtures) that stay alive during the case."
)
RULE += " Rounds 12-14 of DESIGN section 9 added: files with short int arrays loaded twice (one edited in place; the other, a module built before and one built after unchanged); 160 loaded containers kept alive across garbage collections while 7500 unrelated projects are built and edited; notes of clone() / deepcopy copies lead to the copy's own objects."
ASSUMPTIONS = [
    "B is independently obtained: never an operand of A's link operations, never inside A (designed couplings are C07/C15/C20's subject)",
    "observable state is vlib.snapshot's snapshot plus the bytes B.read() produces",
]
REQUIRED_LABELS = {
    "quick": ["pair_same_recipe", "pair_other_type", "pair_clone", "pair_load_twice", "project_pair", "inplace_list_mutation", "reverse_direction", "save_load_a", "nested_mutation", "bystander_legacy_sampler", "bystander_fixture", "pair_deepcopy", "clone_of_embedded_project_edited"],
    "thorough": ["pair_same_recipe", "pair_other_type", "pair_clone", "pair_load_twice", "project_pair", "inplace_list_mutation", "reverse_direction", "save_load_a"]
    + ["type_" + t for t in build.attachable_types()],
}
INPLACE = ("arr", "mcmap", "harm", "wave", "s_map", "s_point", "s_sample_new", "s_sample_alias", "s_sample_field", "s_env", "m_map", "m_map_inplace", "m_label", "embedded", "effect")


def exhaustive(tier):
    return False


def plan(tier):
    n, per, k = (16, 100, 12) if tier == "quick" else (16, 1500, 30)
    types = build.attachable_types()
    descs = [{"kind": "random", "examples": per, "max_mut": k, "sweep": types[i::n]} for i in range(n)]
    # containers with nested objects get their own shards: leaks through shared inner projects / effects
    for t in ("MetaModule", "MetaModule", "Sampler"):
        descs.append({"kind": "nested", "type": t, "examples": per, "max_mut": k})
    # copies made by Python itself (copy.deepcopy) and by clone(), edited through the type-specific API, for every type that has a payload
    # files whose array chunks hold fewer items than today's length (written by older SunVox versions): two loads of one
    # such file, a module constructed before and one constructed after share nothing
    descs.append({"kind": "short_arrays"})
    # many loaded / cloned containers stay alive while garbage is collected and many new, unrelated objects are built and
    # edited (identity of dead temporaries re-used by new objects)
    descs.append({"kind": "gc_reuse"})
    descs.append({"kind": "copies", "types": ["SpectraVoice", "MultiSynth", "MultiCtl", "WaveShaper", "Fmx", "Generator", "AnalogGenerator", "Sampler", "MetaModule", "VorbisPlayer"], "examples": 6 if tier == "quick" else 60, "max_mut": 4})
    return descs


def load(data):
    from rv.api import read_sunvox_file

    return read_sunvox_file(BytesIO(data))


def make_obj(recipe):
    from rv.api import Synth

    if recipe["kind"] == "project":
        return build.make_project(recipe["spec"])
    return Synth(build.make_module(recipe["spec"]))


@st.composite
def pair_case(draw, max_mut, tname=None, nested=False, force_how=None):
    if nested:
        # the module carries an inner project / effect, B comes from the same bytes or a clone, and
        # the mutations go into the nested object
        a = {"kind": "synth", "spec": draw(build.module_spec(in_project=False, depth=1, tname=tname).filter(lambda ms: (ms["payload"].get("project") or {}).get("modules") or ms["payload"].get("effect")))}
    elif tname is None and draw(st.integers(0, 3)) == 0:
        a = {"kind": "project", "spec": draw(build.project_spec(depth=1, max_modules=3, max_patterns=2))}
    else:
        a = {"kind": "synth", "spec": draw(build.module_spec(in_project=False, depth=1, tname=tname))}
    how = draw(st.sampled_from(["clone", "load_twice", "load_twice", "same_recipe", "deepcopy"] if nested else ["same_recipe", "other", "clone", "load_twice", "deepcopy"]))
    if force_how:
        how = force_how
    b = None
    if how == "other":
        if a["kind"] == "project":
            b = {"kind": "project", "spec": draw(build.project_spec(depth=0, max_modules=2, max_patterns=1, light=True))}
        else:
            b = {"kind": "synth", "spec": draw(build.module_spec(in_project=False, depth=0))}
    # draw the mutations against a scratch build of A (the catalogue depends on the object)
    scratch = make_obj(a)
    if how == "load_twice":
        scratch = load(scratch.read())
    muts = []
    for _ in range(draw(st.integers(1, max_mut))):
        if a["kind"] == "project" and draw(st.integers(0, 4)) == 0 and len(scratch.modules) > 1:
            n = len(scratch.modules)
            e = ["link", draw(st.integers(0, n - 1)), draw(st.integers(0, n - 1)), draw(st.booleans())]
            apply_mut(scratch, e)
        else:
            e = draw(edits.draw_edit(scratch, focus=True if nested else draw(st.booleans())))
            edits.apply_edit(scratch, e)
        muts.append(e)
    rev = []
    if how in ("clone", "deepcopy") and (force_how or draw(st.booleans())):
        # the catalogue (and its generator preconditions, e.g. edits.live_propagation_hazard) is drawn on
        # an object obtained the same way as B will be
        scratch_b = __import__("copy").deepcopy(make_obj(a)) if how == "deepcopy" else clone_of(make_obj(a))
        for _ in range(draw(st.integers(1, 3))):
            e = draw(edits.draw_edit(scratch_b, focus=True))
            edits.apply_edit(scratch_b, e)
            rev.append(e)
    return {"a": a, "how": how, "b": b, "mutations": muts, "reverse": rev, "save_load_a": draw(st.booleans()), "bystander": draw(st.sampled_from([None, None] + BYSTANDERS))}


BYSTANDERS = ["legacy_sampler", "legacy_sampler_in_project", "fixture:sampler.sunsynth", "fixture:metamodule.sunsynth", "fixture:multictl.sunsynth", "short_lfo", "surplus_sampler"]


def make_bystander(name):
    """A third object that stays alive while A is built, mutated, saved, loaded and cloned: objects
    loaded from files other SunVox versions wrote (legacy Sampler layout, fewer / more controller
    values than today) and from shipped fixtures."""
    import os
    import struct

    from rv.api import Project, Synth, m, read_sunvox_file
    from vlib import chunktools
    from vlib.harness import REPO

    if name.startswith("fixture:"):
        path = os.path.join(REPO, "tests", "files", name.split(":", 1)[1])
        if not os.path.exists(path):
            return None
        with open(path, "rb") as f:
            return load(f.read())
    if name.startswith("legacy_sampler"):
        from checks import c16

        s = m.Sampler()
        smp = s.Sample()
        smp.data = bytes(range(40))
        s.samples[1] = smp
        s.volume_envelope.points = [(0, 0x4000), (16, 0x2000), (99, 0)]
        vb, _ = c16.legacy_variant_bytes(Synth(s).read(), "both")
        leg = load(vb)
        if name.endswith("in_project"):
            p = Project()
            p.attach_module(leg.module)
            p.new_module(m.Sampler)
            return p
        return leg
    chunks = chunktools.parse(Synth(m.Lfo(freq=99) if name == "short_lfo" else m.Sampler()).read())
    last_cval = max(i for i, (cid, _) in enumerate(chunks) if cid == b"CVAL")
    if name == "short_lfo":
        chunks = [c for i, c in enumerate(chunks) if not (c[0] == b"CVAL" and i > last_cval - 4)]
    else:
        chunks = chunks[: last_cval + 1] + [(b"CVAL", struct.pack("<i", 5))] * 2 + chunks[last_cval + 1 :]
    return load(chunktools.build(chunks))


def apply_mut(obj, e):
    if e[0] == "link":
        A, B = obj.modules[e[1]], obj.modules[e[2]]
        if A is None or B is None:
            return
        if e[3]:
            A >> ~B
        else:
            A >> B
    else:
        edits.apply_edit(obj, e)


def clone_of(obj):
    from rv.api import Synth

    if type(obj).__name__ == "Synth":
        return Synth(obj.module.clone())
    return obj.clone()


def observe(obj):
    return snapshot.snap(obj), obj.read()


PRISTINE = {}


def fresh_observation(cls):
    from rv.api import Project, Synth

    # bytes first: taking a snapshot touches lazily created per-object entries
    if cls is Project:
        o = Project()
        data = o.read()
        return snapshot.snap_project(o), data
    o = cls()
    data = Synth(o).read()
    return snapshot.snap_module(o, in_project=False), data


def record_pristine():
    """State and saved bytes of a freshly constructed object of every type, taken at the very start
    of the shard - before any case has been generated (generation itself builds and mutates objects)."""
    from rv.api import Project

    if PRISTINE:
        return
    PRISTINE[Project] = fresh_observation(Project)
    for t in build.attachable_types():
        cls = build.cls_of(t)
        PRISTINE[cls] = fresh_observation(cls)


def before_noise():
    import rv.api  # noqa: F401

    record_pristine()


def run_case(ctx, case):
    a_recipe = case["a"]
    labels = set()
    record_pristine()
    if a_recipe["kind"] == "synth":
        cls = build.cls_of(a_recipe["spec"]["type"])
        labels.add("type_" + a_recipe["spec"]["type"])
    else:
        from rv.api import Project

        cls = Project
        labels.add("project_pair")
    pristine = PRISTINE[cls][0]
    bystander = make_bystander(case["bystander"]) if case.get("bystander") else None
    by0 = observe(bystander) if bystander is not None else None
    A = make_obj(a_recipe)
    how = case["how"]
    if how == "same_recipe":
        B = make_obj(a_recipe)
        labels.add("pair_same_recipe")
    elif how == "other":
        B = make_obj(case["b"])
        labels.add("pair_other_type")
    elif how == "clone":
        B = clone_of(A)
        labels.add("pair_clone")
        notes_belong(B, A, "clone()")
    elif how == "deepcopy":
        import copy

        B = copy.deepcopy(A)  # Python's own way of obtaining an independent copy
        labels.add("pair_deepcopy")
        notes_belong(B, A, "copy.deepcopy")
    else:
        data = A.read()
        constructed = snapshot.snap(A)
        A = load(data)
        B = load(data)
        labels.add("pair_load_twice")
        # what was loaded is what was built - unless something process-wide was changed by earlier
        # objects (generation of this very case already built, loaded and mutated objects)
        d = snapshot.diff(constructed, snapshot.snap(B))
        if d:
            raise PropertyViolation("C17.leak.loaded_object_polluted", "an object loaded from freshly written bytes differs from the one that was written: %r" % (d[:3],), key="C17.leak:loaded_object_polluted")
    b0 = observe(B)
    for i, e in enumerate(case["mutations"]):
        apply_mut(A, e)
        b1 = observe(B)
        if b1[0] != b0[0]:
            d = snapshot.diff(b0[0], b1[0])
            raise PropertyViolation("C17.leak.snapshot", "mutation %d %r of A changed B (%s): %r" % (i, e[:5], how, d[:3]), key="C17.leak:" + how)
        if b1[1] != b0[1]:
            raise PropertyViolation("C17.leak.bytes", "mutation %d %r of A changed B's saved bytes (%s)" % (i, e[:5], how), key="C17.leak:" + how)
        flat = repr(e)
        if any("'%s'" % k in flat for k in INPLACE):
            labels.add("inplace_list_mutation")
        if "'embedded'" in flat or "'effect'" in flat:
            labels.add("nested_mutation")
    if case["save_load_a"]:
        A = load(A.read())
        labels.add("save_load_a")
        b1 = observe(B)
        if b1 != b0:
            raise PropertyViolation("C17.leak.save_load", "saving/loading A changed B (%s)" % how, key="C17.leak:" + how)
    if case["reverse"]:
        labels.add("reverse_direction")
        a0 = observe(A)
        for i, e in enumerate(case["reverse"]):
            try:
                edits.apply_edit(B, e)
            except (IndexError, AttributeError, KeyError):
                break  # the clone-side catalogue was drawn on a scratch clone; skip edits that do not apply
            a1 = observe(A)
            if a1 != a0:
                d = snapshot.diff(a0[0], a1[0])
                raise PropertyViolation("C17.leak.reverse", "mutation %r of the clone changed the original: %r" % (e[:5], d[:3]), key="C17.leak:reverse")
    # a MetaModule's embedded project is itself a Project: cloning *it* and editing the clone - in
    # particular the controllers the MetaModule's mappings name, in either index convention - leaves
    # the MetaModule and its project alone
    if type(A).__name__ == "Synth" and type(A.module).__name__ == "MetaModule" and how in ("same_recipe", "clone", "deepcopy", "other"):
        mm = A.module
        inner_clone = mm.project.clone()
        by_mtype = specmodel.by_mtype()
        a_before = observe(A)
        n_edits = 0
        for mp in mm.mappings.values[:12]:
            for number in (mp.controller, mp.controller + 1):
                if not (0 < mp.module < len(inner_clone.modules)) or inner_clone.modules[mp.module] is None:
                    continue
                target = inner_clone.modules[mp.module]
                mt = by_mtype.get(target.mtype)
                if mt is None or not (1 <= number <= len(mt.controllers)):
                    continue
                c = mt.controllers[number - 1]
                if c.kind not in ("range", "compact", "no_offset"):
                    continue
                cur = getattr(target, c.name)
                setattr(target, c.name, c.max if cur != c.max else c.min)
                n_edits += 1
        if n_edits:
            labels.add("clone_of_embedded_project_edited")
            if observe(A) != a_before:
                d = snapshot.diff(a_before[0], snapshot.snap(A))
                raise PropertyViolation("C17.leak.embedded_project_clone", "editing a clone of a MetaModule's embedded project changed the MetaModule: %r" % (d[:3],), key="C17.leak:embedded_project_clone")
    if bystander is not None:
        labels.add("bystander_" + case["bystander"].split(":")[0])
        clone_of(A)  # one more way of loading while the bystander is alive
        by1 = observe(bystander)
        if by1[0] != by0[0]:
            raise PropertyViolation("C17.leak.bystander", "building / mutating / saving / loading / cloning A changed an unrelated live object (%s): %r" % (case["bystander"], snapshot.diff(by0[0], by1[0])[:3]), key="C17.leak:bystander")
        if by1[1] != by0[1]:
            raise PropertyViolation("C17.leak.bystander.bytes", "building / mutating / saving / loading / cloning A changed the bytes an unrelated live object saves (%s): %d -> %d bytes" % (case["bystander"], len(by0[1]), len(by1[1])), key="C17.leak:bystander")
    # nothing process-wide was polluted: an object constructed now looks and saves like one constructed
    # before anything else happened in this process
    fs, fbytes = fresh_observation(cls)
    if fs != pristine:
        d = snapshot.diff(pristine, fs)
        raise PropertyViolation("C17.defaults_polluted", "a %s constructed after the mutations differs from a pristine one: %r" % (cls.__name__, d[:3]), key="C17.defaults_polluted:" + cls.__name__)
    if fbytes != PRISTINE[cls][1]:
        raise PropertyViolation("C17.defaults_polluted.bytes", "a freshly constructed %s now saves to different bytes than at process start" % cls.__name__, key="C17.defaults_polluted.bytes")
    # the same for a second, unrelated type (shared module-level state is not per class)
    other = build.cls_of("Amplifier")
    if fresh_observation(other) != PRISTINE[other]:
        raise PropertyViolation("C17.defaults_polluted.other_type", "a freshly constructed Amplifier differs from / saves differently than at process start", key="C17.defaults_polluted.other_type")
    return labels


def int_arrays_of(tname):
    from rv.chunks import ArrayChunk

    mod = build.cls_of(tname)()
    return [(k, v.chnm, v.length, v.element_size) for k, v in vars(mod).items() if isinstance(v, ArrayChunk) and v.values and all(type(x) is int for x in v.values)]


def run_short_array(tname, attr, chnm, length, esize, cut):
    from rv.api import Synth

    cls = build.cls_of(tname)
    earlier = cls()
    earlier_bytes = Synth(earlier).read()
    pristine = list(getattr(earlier, attr).values)
    src = cls()
    vals = getattr(src, attr).values
    vals[0] = (vals[0] + 1) % (1 << (8 * esize - 1))  # something to write
    data, n = build.short_array_chunk(Synth(src).read(), chnm, cut * esize)
    if n == 0:
        return False
    a = load(data).module
    b = load(data).module
    vb = list(getattr(b, attr).values)
    va = getattr(a, attr).values
    for j in sorted({0, len(va) // 2, len(va) - 1}):
        va[j] = (va[j] + 3) % (1 << (8 * esize - 1))
    where = "%s.%s loaded twice from a file holding %d of %d items, one load edited in place" % (tname, attr, cut, length)
    if list(getattr(b, attr).values) != vb:
        raise PropertyViolation("C17.short_array.loads_share", where + ": the other load changed", key="C17.short_array:" + tname)
    if list(getattr(earlier, attr).values) != pristine or Synth(earlier).read() != earlier_bytes:
        raise PropertyViolation("C17.short_array.earlier_object", where + ": a module constructed before now holds / writes something else", key="C17.short_array:" + tname)
    later = cls()
    if list(getattr(later, attr).values) != pristine or Synth(later).read() != earlier_bytes:
        raise PropertyViolation("C17.short_array.later_object", where + ": a module constructed afterwards does not start from the defaults", key="C17.short_array:" + tname)
    return True


def notes_belong(B, A, how):
    """The notes of a copied project lead to the copy's own patterns, project and modules - not back into the original."""
    if type(B).__name__ != "Project":
        return
    a_objs = {id(x) for x in list(A.patterns) + list(A.modules) if x is not None} | {id(A)}
    for pi, pat in enumerate(B.patterns):
        if pat is None or type(pat).__name__ != "Pattern":
            continue
        for ln, line in enumerate(pat.data):
            for tr, n in enumerate(line):
                if n.pattern is not pat:
                    raise PropertyViolation("C17.copy.note_owner", "%s of a project: note (%d,%d) of pattern %d of the copy has pattern %s" % (how, ln, tr, pi, "of the original" if id(n.pattern) in a_objs else repr(type(n.pattern).__name__)), key="C17.copy.note_owner")
                if n.project is not B:
                    raise PropertyViolation("C17.copy.note_owner", "%s of a project: note (%d,%d) of pattern %d of the copy has project %s" % (how, ln, tr, pi, "= the original" if n.project is A else "something else"), key="C17.copy.note_owner")
                if 0 < n.module <= len(B.modules) - 1 and B.modules[n.module - 1 + 0] is not None:
                    try:
                        mod = n.mod
                    except Exception:  # noqa: BLE001 - resolution rules are C14's business
                        mod = None
                    if mod is not None and id(mod) in a_objs:
                        raise PropertyViolation("C17.copy.note_owner", "%s of a project: note (%d,%d) of pattern %d of the copy resolves to a module of the original" % (how, ln, tr, pi), key="C17.copy.note_owner")


def run_gc_reuse(ctx):
    import gc

    from rv.api import Project, Synth, m

    base = m.MetaModule()
    base.project.new_module(m.Amplifier)
    base.project.new_module(m.Generator)
    # (the library matches an embedded controller that changes by its number, counted from 1)
    base.mappings.values[0] = base.Mapping((1, 1))
    base.user_defined_controllers = 1
    data = Synth(base).read()
    smp = build.make_module(build.big_payload_module_specs()[0]) if build.big_payload_module_specs()[0]["type"] == "Sampler" else m.Sampler()
    sdata = Synth(smp).read()
    keep = []
    for i in range(160):
        keep.append(load(data).module if i % 3 else base.clone())
        if i % 40 == 0:
            keep.append(load(sdata).module)
    before = [(Synth(x).read(), snapshot.snap_module(x, in_project=False)) for x in keep]
    rec = {"gc_reuse": len(keep)}
    for rnd in range(3):
        gc.collect()
        fresh = []
        for i in range(2500):
            ctx.case()
            p = Project()
            a = p.new_module(m.Amplifier)
            g = p.new_module(m.Generator)
            a.volume = 1 + (i * 7) % 100
            a.balance = (i * 5) % 100 - 50
            g.volume = 1 + (i * 3) % 250
            a >> g >> p.output
            if i % 50 == 0:
                mm = p.new_module(m.MetaModule)
                mm.project.new_module(m.Amplifier).volume = 5
            if rnd != 1 or i % 2:
                fresh.append(p)  # the new objects stay alive for the round (in the second round: every other one)
        for k, x in enumerate(keep):
            now = (Synth(x).read(), snapshot.snap_module(x, in_project=False))
            if now[1] != before[k][1] or now[0] != before[k][0]:
                d = snapshot.diff(before[k][1], now[1])[:3]
                ctx.check(False, "C17.leak.unrelated_new_objects", "building and editing new, unrelated projects changed a live %s loaded earlier (#%d of %d kept alive, round %d): %r" % (type(x).__name__, k, len(keep), rnd, d or "saved bytes differ"), key="C17.leak:gc_reuse", recipe={"case": rec})
                return
        del fresh
    ctx.mark_nontrivial(rec)
    ctx.label("unrelated_objects_built_after_garbage_collection")
    ctx.sample(rec)


def run_short_arrays(ctx):
    for tname in build.attachable_types():
        for attr, chnm, length, esize in int_arrays_of(tname):
            for cut in sorted({1, length // 2, length - 1}):
                ctx.case()
                rec = {"short_array": [tname, attr, chnm, length, esize, cut]}
                try:
                    if run_short_array(tname, attr, chnm, length, esize, cut):
                        ctx.mark_nontrivial(rec)
                        ctx.label("short_array_file_loaded_twice")
                except PropertyViolation as v:
                    ctx.check(False, v.sub_oracle, v.detail, key=v.key, recipe={"case": rec})
                except Exception as e:  # noqa: BLE001
                    from vlib.harness import as_violation

                    v = as_violation(e, "C17", "short_array")
                    if v is None:
                        raise
                    ctx.check(False, v.sub_oracle, "%r: %s" % (rec, v.detail), key=v.key, recipe={"case": rec})
            ctx.sample({"short_array": [tname, attr, length]})


def run_shard(ctx, desc):
    import rv.api  # noqa: F401

    record_pristine()
    if desc["kind"] == "short_arrays":
        run_short_arrays(ctx)
        return
    if desc["kind"] == "gc_reuse":
        run_gc_reuse(ctx)
        return

    def body(case):
        ctx.case()
        labels = run_case(ctx, case)
        ctx.label(*labels)
        if "inplace_list_mutation" in labels:
            ctx.mark_nontrivial(case)
        if len(repr(case)) < 1500:
            ctx.sample(case)

    if desc["kind"] == "nested":
        run_property(ctx, pair_case(desc["max_mut"], tname=desc["type"], nested=True), body, desc["examples"], tag="nested_" + desc["type"], bucket="pair")
        return
    if desc["kind"] == "copies":
        for t in desc["types"]:
            for how in ("deepcopy", "clone"):
                if not run_property(ctx, pair_case(desc["max_mut"], tname=t, force_how=how), body, desc["examples"], tag="copies_%s_%s" % (how, t), bucket="pair"):
                    return
        return
    for t in desc["sweep"]:
        if not run_property(ctx, pair_case(desc["max_mut"], tname=t), body, 6 if ctx.tier == "quick" else 25, tag="sweep_" + t, bucket="pair"):
            return
    run_property(ctx, pair_case(desc["max_mut"]), body, desc["examples"], tag="random", bucket="pair")


def replay(ctx, doc):
    if "gc_reuse" in doc["recipe"]["case"]:
        from vlib.harness import Ctx

        c2 = Ctx(ctx.prop, ctx.tier, ctx.seed, 0, 1, [])
        run_gc_reuse(c2)
        if c2.failures:
            raise PropertyViolation(c2.failures[0]["sub_oracle"], c2.failures[0]["detail"], c2.failures[0]["key"])
        return
    if "short_array" in doc["recipe"]["case"]:
        run_short_array(*doc["recipe"]["case"]["short_array"])
        return
    run_case(ctx, doc["recipe"]["case"])
