"""C15 - MetaModules keep embedded project and user controllers intact at any depth."""

from __future__ import annotations

import struct
from io import BytesIO

from hypothesis import strategies as st

from vlib import build, chunktools, snapshot, specmodel
from vlib import strategies as vs
from vlib.harness import PropertyViolation, run_property

PROPERTY_ID = "C15"
LEVEL = "exploration"
RULE = (
    "Hypothesis generates MetaModule recipes: nesting depth 0..2 (quick) / 0..4 (thorough) with MetaModules inside embedded projects, embedded "
    "projects of up to 5 modules/level of mixed types (ranges with negative minimum, enums, booleans, unit-dependent), user-controller count n over "
    "{0,1,2,27,95,96} and uniform 0..96, mappings onto generated (module, controller) targets of every controller kind, onto user controllers of inner MetaModules (dedicated chain shards: outer -> inner user controller -> any controller of any module type) and onto arbitrary u16 pairs, "
    "labels (any text without NUL) at generated indices < n, the count raised and lowered on the same object before it settles at n, labels left on controllers beyond the count, value types re-derived or not before saving, values assigned through user controllers "
    "where the target admits them; both contexts (stand-alone synth / in a project). Oracle: snapshot equality after save/load (embedded project "
    "recursively under the C01 oracle, count, all 96 mappings, labels < n, stored values, attached set = first n), file structure (5+n CVALs, "
    "8(5+n) CMID bytes, label chunks only for indices < n, via independent chunk parsing), second cycle byte-identical, and every loaded user controller whose mapping chain resolves to a spec'd controller shows its stored value read under that controller's declared range; plus edit histories (load - edit in place, also inside nested embedded projects, optionally saving in between - save - load) under C06's metamorphic oracle. non-trivial = n >= 1 with a "
    "mapping onto a non-plain-range target, or depth >= 1"
    ' Also (added while the seeded-change rounds of DESIGN section 9 ran): Also: long / default-looking / one-word labels, label aliases (read, and written where safe), failed saves in the past, project contexts written as older versions.'
)
RULE += " Rounds 12-14 of DESIGN section 9 added: files re-encoded with 1 / 27 / 64 / 90 mapping items and the CHNK count SunVox declares, count raised, slots beyond the stored ones mapped (item replaced or edited in place) and named."
ASSUMPTIONS = [
    "mapping 'controller' is the 0-based index the library itself uses when it resolves a mapping",
    "values are assigned through a user controller (under its own name or, for one-word lower-case labels, under its label alias u_<label>) only on the outermost MetaModule, when its mapping names an existing embedded ranged / enum / boolean controller and no other mapping names the neighbouring controller of that module",
    "for a *loaded* MetaModule the value a user controller shows is claimed to be its stored value read under the resolved target's declared range; for constructed ones only stored values are claimed",
]
REQUIRED_LABELS = {
    "quick": ["edit_history", "depth_0", "depth_1", "depth_2", "count_0", "count_96", "count_mid", "map_enum", "map_bool", "map_negative_range", "label_set", "ctx_synth", "ctx_project", "user_value_set", "types_rederived", "label_beyond_count", "count_lowered", "user_ctl_midi_binding", "map_onto_inner_user_controller", "label_alias"],
    "thorough": ["edit_history", "depth_0", "depth_1", "depth_2", "depth_3", "count_0", "count_96", "count_95", "count_27", "count_mid", "map_enum", "map_bool", "map_negative_range", "map_dependent", "label_set", "ctx_synth", "ctx_project", "user_value_set", "types_rederived"],
}
INNER_TYPES = ["Amplifier", "Adsr", "Lfo", "Filter", "Generator", "Delay", "MultiSynth", "VorbisPlayer", "Compressor"]


def exhaustive(tier):
    return False


def plan(tier):
    n, per, depth = (16, 60, 2) if tier == "quick" else (16, 800, 4)
    descs = [{"kind": "random", "examples": per, "max_depth": depth} for _ in range(n)]
    # chains outer user controller -> inner user controller -> any controller of any module type, many per process
    for i in range(3):
        descs.append({"kind": "random", "examples": per, "max_depth": depth, "chain": True})
    # second generation: load what was saved, edit it in place (also inside nested embedded projects,
    # optionally saving in between), save and load again
    for f in ("NestedMeta", "NestedMeta", "MetaModule"):
        descs.append({"kind": "edit_history", "focus": f, "examples": per})
    # MetaModules whose file holds fewer mapping items than today's 96 (27 and 64 in older SunVox versions): the count
    # is raised on the loaded object and slots beyond the stored ones are mapped
    descs.append({"kind": "short_mappings", "examples": per})
    return descs


@st.composite
def inner_project(draw, depth):
    nm = draw(st.integers(0, 5 if depth <= 1 else 3))
    mods = []
    for _ in range(nm):
        if depth > 0 and draw(st.integers(0, 2)) == 0:
            mods.append(draw(meta_spec(depth - 1, in_project=True)))
        else:
            mods.append(draw(build.module_spec(in_project=True, depth=0, types=INNER_TYPES)))
    npat = draw(st.integers(0, 1))
    pats = [draw(build.pattern_spec(max_lines=4, max_tracks=2)) for _ in range(npat)]
    n = nm + 1
    links = [[draw(st.sampled_from(["c", "c", "d"])), draw(st.integers(0, n - 1)), draw(st.integers(0, n - 1))] for _ in range(draw(st.integers(0, min(4, n))))]
    return {"modules": mods, "patterns": pats, "fields": draw(st.fixed_dictionaries({}, optional=build.PROJECT_FIELD_STRATS)), "links": links}


@st.composite
def meta_spec(draw, depth, in_project):
    spec = specmodel.load()
    inner = draw(inner_project(depth))
    n = draw(st.one_of(st.sampled_from([0, 1, 2, 27, 95, 96]), st.integers(0, 96)))
    targets = []
    for mi, ms in enumerate(inner["modules"], 1):
        for ci, c in enumerate(spec[ms["type"]].controllers):
            targets.append([mi, ci, ms["type"], c.name])
        if ms["type"] == "MetaModule":
            # the inner MetaModule's own user-defined controllers (index 5 and up) are targets too
            for k in range(min(ms["payload"]["count"], 3)):
                targets.append([mi, 5 + k, "MetaModule", "user_defined_%d" % (k + 1)])
                targets.append([mi, 5 + k, "MetaModule", "user_defined_%d" % (k + 1)])
    maps, user_sets = [], []
    if n:
        k = draw(st.integers(0, min(n, 8)))
        idxs = draw(st.lists(st.sampled_from(sorted({0, n - 1, n // 2} | set(range(min(n, 6))))), min_size=0, max_size=k, unique=True))
        for i in idxs:
            if targets and draw(st.integers(0, 4)) > 0:
                mi, ci, t, cname = draw(st.sampled_from(targets))
                maps.append([i, mi, ci])
                if cname.startswith("user_defined_"):
                    continue
                c = spec[t].ctl(cname)
                if draw(st.booleans()):
                    if c.kind in ("range", "compact", "no_offset"):
                        user_sets.append([i, draw(vs.edge_int(c.min, c.max))])
                    elif c.kind == "enum":
                        user_sets.append([i, ["enum", t, c.enum, draw(st.sampled_from(sorted(c.members)))]])
                    elif c.kind == "bool":
                        user_sets.append([i, draw(st.booleans())])
            else:
                maps.append([i, draw(vs.edge_int(0, 65535)), draw(vs.edge_int(0, 65535))])
    labels = []
    if n:
        lidx = draw(st.lists(st.sampled_from(sorted({0, n - 1, n // 2} | set(range(min(n, 4))))), max_size=4, unique=True))
        words = st.sampled_from(["cutoff", "res", "mix", "vol", "depth", "rate"])
        mapped = {i for i, _, _ in maps}
        if mapped and draw(st.booleans()):
            lidx = sorted(set(lidx) | set(draw(st.lists(st.sampled_from(sorted(mapped)), min_size=1, max_size=3, unique=True))))
        # controllers that are mapped get a plain one-word label more often (their label alias is then usable)
        # ... and labels that look like what the library itself would call the controller
        def looks_default(i):
            return st.sampled_from(["User Defined %d" % (i + 1), "User Defined %d" % (i + 2), "user defined %d" % (i + 1), "user_defined_%d" % (i + 1), "User Defined"])

        labels = [[i, draw(st.one_of(words, words, vs.text_no_nul(12), looks_default(i)) if i in mapped else st.one_of(vs.text_no_nul(12), vs.text_no_nul(12), words, vs.long_text(), looks_default(i)))] for i in lidx]
    rederive = draw(st.booleans())
    # library precondition (see vlib.edits.live_propagation_hazard): a value assigned through a user
    # controller mapped to (module, index) is echoed to whatever mapping names (module, index + 1)
    taken = {(mi, ci) for _, mi, ci in maps}
    by_idx = {i: (mi, ci) for i, mi, ci in maps}
    user_sets = [us for us in user_sets if (by_idx[us[0]][0], by_idx[us[0]][1] + 1) not in taken]
    payload = {"project": inner, "count": n, "mappings": maps, "labels": labels}
    if n:
        cidx = draw(st.lists(st.sampled_from(sorted({0, n - 1, n // 2})), max_size=2, unique=True))
        payload["user_cmid"] = [[i] + draw(build.cmid_entry) for i in cidx]
    # labels left on controllers beyond the count (e.g. after the count was reduced) must not be written
    beyond = []
    if n < 96 and draw(st.booleans()):
        for i in draw(st.lists(st.sampled_from(sorted({n, 95, min(95, n + 1)})), min_size=1, max_size=2, unique=True)):
            beyond.append([i, draw(vs.text_no_nul(6))])
    ms = {
        "type": "MetaModule",
        "common": draw(build.common_fields(in_project)),
        "sets": draw(build.controller_sets(spec["MetaModule"])),
        "options": draw(build.option_sets(spec["MetaModule"])),
        "cmid": draw(build.cmid_sets(spec["MetaModule"])),
        "payload": payload,
        "rederive": rederive,
        "user_sets": user_sets if rederive else [],
        "labels_beyond_count": beyond,
        # the count is raised/lowered a few times on the same object before it settles at n
        "count_history": draw(st.lists(st.one_of(st.sampled_from([0, 1, 3, 96]), st.integers(0, 96)), max_size=3)),
    }
    return ms


@st.composite
def chain_spec(draw):
    """outer.user_defined_1 -> inner MetaModule.user_defined_k -> a controller of any kind of any module type."""
    spec = specmodel.load()
    ttype = draw(st.sampled_from(sorted(t for t in spec if t not in ("Output", "MetaModule") and spec[t].controllers)))
    target = draw(build.module_spec(in_project=True, depth=0, tname=ttype, dense=True))
    ci = draw(st.integers(0, len(spec[ttype].controllers) - 1))
    k = draw(st.integers(0, 2))
    inner = draw(meta_spec(0, in_project=True))
    inner["payload"]["project"]["modules"] = [target] + inner["payload"]["project"]["modules"][:2]
    inner["payload"]["project"]["links"] = []
    inner["payload"]["count"] = max(inner["payload"]["count"], k + 1)
    inner["payload"]["mappings"] = [mp for mp in inner["payload"]["mappings"] if mp[0] != k and mp[1] <= 3] + [[k, 1, ci]]
    inner["user_sets"] = []
    inner["rederive"] = draw(st.booleans())
    outer = draw(meta_spec(0, in_project=True))
    outer["payload"]["project"]["modules"] = [inner] + outer["payload"]["project"]["modules"][:1]
    outer["payload"]["project"]["links"] = []
    j = draw(st.integers(0, 2))
    outer["payload"]["count"] = max(outer["payload"]["count"], j + 1)
    outer["payload"]["mappings"] = [mp for mp in outer["payload"]["mappings"] if mp[0] != j and mp[1] <= 2] + [[j, 1, 5 + k]]
    outer["user_sets"] = []
    outer["rederive"] = draw(st.booleans())
    for m_ in (inner, outer):
        n = m_["payload"]["count"]
        m_["payload"]["labels"] = [l for l in m_["payload"]["labels"] if l[0] < n]
        m_["payload"]["user_cmid"] = [c for c in m_["payload"].get("user_cmid", []) if c[0] < n]
        m_["labels_beyond_count"] = [l for l in m_.get("labels_beyond_count", []) if l[0] >= n]
    return outer


def build_meta(ms):
    """make_module + the MetaModule-specific steps (recursive for nested specs)."""
    mod = build.make_module(ms)
    finish_meta(mod, ms)
    return mod


def finish_meta(mod, ms, top=True):
    # nested MetaModules inside the embedded project
    for i, sub in enumerate(ms["payload"]["project"]["modules"], 1):
        if sub["type"] == "MetaModule":
            finish_meta(mod.project.modules[i], sub, top=False)
    hist = ms.get("count_history", [])
    if hist:
        for c in hist:
            mod.user_defined_controllers = c
        mod.user_defined_controllers = ms["payload"]["count"]
    for i, text in ms.get("labels_beyond_count", []):
        mod.user_defined[i].label = text
    if ms.get("rederive"):
        mod.update_user_defined_controllers()
        # values are assigned through user controllers of the outermost MetaModule only: an inner one
        # echoes every change upwards into the enclosing MetaModule's mapping table (library precondition,
        # see vlib.edits.live_propagation_hazard)
        for i, v in ms.get("user_sets", []) if top else []:
            if isinstance(v, list):
                cls = build.cls_of(v[1])
                v = getattr(getattr(cls, v[2]), v[3])
            alias = alias_of(mod, ms, i)
            if alias is not None and (i + len(ms.get("user_sets", []))) % 2 == 0:
                # the controller is also reachable under the name derived from its label
                setattr(mod, alias, v)
                got = getattr(mod, "user_defined_%d" % (i + 1))
                if got != v:
                    raise PropertyViolation("C15.alias.writes", "assigning %r through the alias %r of user_defined_%d: the controller reads %r" % (v, alias, i + 1, got), key="C15.alias")
            else:
                setattr(mod, "user_defined_%d" % (i + 1), v)


def alias_names(ms):
    """{index: alias} for the exposed user-defined controllers whose label yields a usable, unique alias
    (u_<label> for labels that are a single lower-case ASCII word)."""
    import re

    n = ms["payload"]["count"]
    final = {}
    for i, t in list(ms["payload"].get("labels", [])) + list(ms.get("labels_beyond_count", [])):
        final[i] = t
    by_name = {}
    for i, t in final.items():
        # only labels that are one lower-case ASCII word: every slug rule turns those into themselves,
        # so the alias name does not depend on the library's slug conventions
        if i < n and t and re.fullmatch(r"[a-z]{2,12}", t):
            by_name.setdefault("u_" + t, []).append(i)
    # a label that slugs to the same name elsewhere would make the alias ambiguous: leave those out
    others = [t for i, t in final.items() if i < n and t and not re.fullmatch(r"[a-z]{2,12}", t)]
    return {idxs[0]: a for a, idxs in by_name.items() if len(idxs) == 1 and not any(a[2:] in (o or "").lower() for o in others)}


def alias_of(mod, ms, i):
    a = alias_names(ms).get(i)
    if a is None or a in type(mod).__dict__ or a in mod.__dict__:
        return None
    return a


def check_aliases(ms, mod, where):
    """Reading a user-defined controller through its label alias gives that controller's value."""
    hit = False
    for i, a in sorted(alias_names(ms).items()):
        if alias_of(mod, ms, i) is None:
            continue
        direct = getattr(mod, "user_defined_%d" % (i + 1))
        try:
            via = getattr(mod, a)
        except AttributeError:
            raise PropertyViolation("C15.alias.missing", "%s: user_defined_%d is labelled %r but the module has no attribute %r" % (where, i + 1, dict(ms["payload"]["labels"]).get(i), a), key="C15.alias")
        if via != direct:
            raise PropertyViolation("C15.alias.reads", "%s: %r reads %r, user_defined_%d holds %r" % (where, a, via, i + 1, direct), key="C15.alias")
        hit = True
    return hit


def depth_of(ms):
    d = 0
    for sub in ms["payload"]["project"]["modules"]:
        if sub["type"] == "MetaModule":
            d = max(d, 1 + depth_of(sub))
    return d


def labels_of(ms):
    spec = specmodel.load()
    labels = {"depth_%d" % depth_of(ms)}
    n = ms["payload"]["count"]
    labels.add("count_%d" % n if n in (0, 1, 2, 27, 95, 96) else "count_mid")
    inner = ms["payload"]["project"]["modules"]
    for i, mi, ci in ms["payload"]["mappings"]:
        if 1 <= mi <= len(inner) and inner[mi - 1]["type"] == "MetaModule" and 5 <= ci < 5 + inner[mi - 1]["payload"]["count"]:
            labels.add("map_onto_inner_user_controller")
        elif 1 <= mi <= len(inner) and ci < len(spec[inner[mi - 1]["type"]].controllers):
            c = spec[inner[mi - 1]["type"]].controllers[ci]
            if c.kind == "enum":
                labels.add("map_enum")
            elif c.kind == "bool":
                labels.add("map_bool")
            elif c.kind == "dependent":
                labels.add("map_dependent")
            elif c.min < 0:
                labels.add("map_negative_range")
            else:
                labels.add("map_plain_range")
        else:
            labels.add("map_dangling")
    if ms["payload"]["labels"]:
        labels.add("label_set")
    if ms["payload"].get("user_cmid"):
        labels.add("user_ctl_midi_binding")
    if ms.get("rederive"):
        labels.add("types_rederived")
    if ms.get("user_sets"):
        labels.add("user_value_set")
    if ms.get("labels_beyond_count"):
        labels.add("label_beyond_count")
    h = ms.get("count_history", [])
    if h:
        labels.add("count_changed")
        if max(h) > ms["payload"]["count"]:
            labels.add("count_lowered")
    return labels


def resolve_target(ms, i, depth=0):
    """Follow user controller i of recipe ms through the mapping tables (also through user controllers of
    inner MetaModules) to a spec'd controller.  Returns (module recipe, spec controller) or None."""
    spec = specmodel.load()
    if depth > 6 or i >= ms["payload"]["count"]:
        return None
    mp = {a: (b, c) for a, b, c in ms["payload"]["mappings"]}.get(i)
    if mp is None:
        return None
    mi, ci = mp
    inner = ms["payload"]["project"]["modules"]
    if not (1 <= mi <= len(inner)):
        return None
    target = inner[mi - 1]
    ctls = spec[target["type"]].controllers
    if ci < len(ctls):
        return target, ctls[ci]
    if target["type"] == "MetaModule":
        return resolve_target(target, ci - 5, depth + 1)
    return None


def check_loaded_user_values(ms, loaded, where):
    """After a load the library derives each user controller's value type from its mapping; the value it
    then shows must be the stored value read under the *resolved target's* declared range (YAML)."""
    n = min(ms["payload"]["count"], 96)
    for i in range(n):
        r = resolve_target(ms, i)
        if r is None:
            continue
        target, c = r
        raw = loaded.get_raw("user_defined_%d" % (i + 1))
        got = getattr(loaded, "user_defined_%d" % (i + 1))
        if c.kind in ("range", "compact"):
            want = raw + c.min if c.min < 0 else raw
        elif c.kind == "no_offset":
            want = raw
        elif c.kind == "bool":
            want = bool(raw)
        elif c.kind == "enum":
            if raw not in c.members.values():
                continue
            want = raw
            got = int(got)
        else:
            continue
        if got != want or (c.kind != "bool" and isinstance(got, bool)):
            raise PropertyViolation(
                "C15.loaded_user_value",
                "%s: user controller %d resolves to %s.%s (%s), stored %r, shows %r, expected %r" % (where, i + 1, target["type"], c.name, c.kind, raw, got, want),
                key="C15.loaded_user_value:" + c.kind,
            )


def file_structure(data, context, n, where):
    chunks = chunktools.parse(data)
    head, pats, mods, tail = chunktools.module_sections(chunks)
    sec = mods[-1] if context == "synth" else mods[1]
    ncval = sum(1 for cid, _ in sec if cid == b"CVAL")
    cmid = [p for cid, p in sec if cid == b"CMID"]
    if ncval != 5 + n:
        raise PropertyViolation("C15.file.cval_count", "%s: %d CVAL chunks for %d user controllers (expected %d)" % (where, ncval, n, 5 + n))
    if len(cmid) != 1 or len(cmid[0]) != 8 * (5 + n):
        raise PropertyViolation("C15.file.cmid_size", "%s: CMID sizes %r, expected one chunk of %d bytes" % (where, [len(c) for c in cmid], 8 * (5 + n)))
    by = chunktools.module_chunks_by_chnm(sec)
    chnk = [struct.unpack("<I", p)[0] for cid, p in sec if cid == b"CHNK"]
    for num in by:
        if chnk and num >= chnk[0]:
            raise PropertyViolation("C15.file.chnm_below_chnk", "%s: CHNM %d >= CHNK %d" % (where, num, chnk[0]))
        if num >= 8 and num - 8 >= n:
            raise PropertyViolation("C15.file.label_beyond_count", "%s: label chunk for user controller %d but count is %d" % (where, num - 8, n))
    if 0 not in by or 1 not in by or 2 not in by:
        raise PropertyViolation("C15.file.required_chunks", "%s: chunks present %r, need 0 (project), 1 (mappings), 2 (options)" % (where, sorted(by)))
    if len(by[1]["CHDT"]) != 96 * 4:
        raise PropertyViolation("C15.file.mappings_size", "%s: mapping chunk is %d bytes" % (where, len(by[1]["CHDT"])))
    return by


def check_meta(ctx, ms):
    from rv.api import Project, Synth, read_sunvox_file

    n = ms["payload"]["count"]
    labels = labels_of(ms)
    for context in ("synth", "project"):
        mod = build_meta(ms)
        if context == "synth":
            container = Synth(mod)
            in_project = False
        else:
            container = Project()
            ver = [None, (1, 9, 4, 2), None, (1, 7, 0, 0), None, (2, 0, 0, 0)][len(repr(ms)) % 6]
            if ver:
                container.sunvox_version = ver  # the project is written as a file of an older SunVox version
            container.attach_module(mod)
            in_project = True
        if len(repr(ms)) % 3 == 0 and build.failed_save_in_past(container, len(repr(ms))):
            labels.add("failed_save_in_the_past")
        s0 = snapshot.snap_module(mod, in_project=in_project)
        if mod.user_defined_controllers != n:
            raise PropertyViolation("C15.count.before_save", "count reads %r after assigning %d" % (mod.user_defined_controllers, n))
        if s0["payload"]["attached"] != list(range(n)):
            raise PropertyViolation("C15.attached.before_save", "attached user controllers %r, expected the first %d" % (s0["payload"]["attached"][:5], n))
        data = container.read()
        file_structure(data, context, n, context)
        back = read_sunvox_file(BytesIO(data))
        bmod = back.module if context == "synth" else back.modules[1]
        s1 = snapshot.snap_module(bmod, in_project=in_project)
        d = snapshot.diff(s0, s1)
        if d:
            area = d[0][0].split("/")[2] if d[0][0].startswith("/payload/") else d[0][0].split("/")[1]
            raise PropertyViolation("C15.roundtrip", "%s: %s" % (context, "; ".join("%s: %r -> %r" % x for x in d[:4])), key="C15.roundtrip:" + area)
        check_loaded_user_values(ms, bmod, context)
        if check_aliases(ms, mod, context + " (constructed)") | check_aliases(ms, bmod, context + " (loaded)"):
            labels.add("label_alias")
            if any(j < i and dict(ms["payload"]["labels"]).get(j) in (None, "") for i in alias_names(ms) for j in range(i)):
                labels.add("label_alias_after_unlabelled_controller")
        if s1["payload"]["attached"] != list(range(n)):
            raise PropertyViolation("C15.attached.after_load", "attached user controllers after load %r, expected the first %d" % (s1["payload"]["attached"][:5], n))
        # labels at every index < n, mappings all 96
        want_labels = dict((i, t) for i, t in ms["payload"]["labels"])
        for i in range(n):
            if bmod.user_defined[i].label != want_labels.get(i):
                raise PropertyViolation("C15.labels", "label %d is %r after load, expected %r" % (i, bmod.user_defined[i].label, want_labels.get(i)))
        want_maps = {i: [mi, ci] for i, mi, ci in ms["payload"]["mappings"]}
        got_maps = [[x.module, x.controller] for x in bmod.mappings.values]
        if len(got_maps) != 96 or any(got_maps[i] != want_maps.get(i, [0, 0]) for i in range(96)):
            raise PropertyViolation("C15.mappings", "mappings after load differ from the ones assigned")
        y = back.read()
        y2 = read_sunvox_file(BytesIO(y)).read()
        if y2 != y:
            raise PropertyViolation("C15.second_cycle", "%s: second load/save cycle changes the file" % context)
        labels.add("ctx_" + context)
    return labels


def run_edit_history(ctx, desc):
    from checks import c06

    def body(case):
        ctx.case()
        try:
            labels, changed = c06.run_case(ctx, case)
        except PropertyViolation as v:
            raise PropertyViolation("C15.edit_history." + v.sub_oracle.split(".", 1)[1], v.detail, key="C15.edit_history." + v.key.split(".", 1)[1])
        ctx.label("edit_history", *[l for l in labels if l in ("saved_before_edit", "embedded_edit", "sampler_edit", "metamodule_edit")])
        if changed:
            ctx.mark_nontrivial(case)
        if len(repr(case)) < 1000:
            ctx.sample(case)

    run_property(ctx, c06.edit_case(focus=desc["focus"]), body, desc["examples"], tag="edit_history", bucket="edit_history")


@st.composite
def short_mappings_case(draw):
    items = draw(st.sampled_from([27, 64, 64, 1, 90]))
    if draw(st.integers(0, 3)) == 0:
        src = {"src": "fixture", "file": "metamodule.sunsynth"}
        if items >= 64:
            items = 64  # what the file holds anyway
    else:
        src = {"src": "meta", "spec": draw(meta_spec(1, in_project=False))}
    src["transform"] = ["short_chunk", 1, items * 4]
    if src["src"] == "meta" and draw(st.booleans()):
        # ... and the module declares as many data chunks as SunVox would for its number of user controllers
        src["transform"].append(8 + src["spec"]["payload"]["count"])
    slots = sorted(draw(st.lists(st.integers(items, 95), min_size=2, max_size=4, unique=True)))
    eds = [["mod", -1, "pay", "m_count", 96]]
    for k, sl in enumerate(slots):
        # targets outside the embedded project: the mapping itself is what is looked at
        eds.append(["mod", -1, "pay", draw(st.sampled_from(["m_map", "m_map_inplace", "m_map_inplace"])), sl, 0xFFF0 + k, draw(st.integers(0, 40))])
    for sl in draw(st.lists(st.integers(0, 95), max_size=2, unique=True)):
        # the newly exposed controllers are given names
        eds.append(["mod", -1, "pay", "m_label", sl, draw(st.sampled_from(["cutoff", "Res", "mix 2", "vol"])) + str(sl)])
    src["edits"] = eds
    src["saves"] = [draw(st.sampled_from([None, None, "read", "clone"])) for _ in eds]
    return src


def run_short_mappings(ctx, desc):
    from checks import c06

    def body(case):
        ctx.case()
        try:
            labels, changed = c06.run_case(ctx, case)
        except PropertyViolation as v:
            raise PropertyViolation("C15.short_mappings." + v.sub_oracle.split(".", 1)[1], v.detail, key="C15.short_mappings." + v.key.split(".", 1)[1])
        ctx.label("mapping_slots_beyond_those_stored_in_the_file")
        if changed:
            ctx.mark_nontrivial(case)
        if len(repr(case)) < 1000:
            ctx.sample(case)

    case = {"src": "fixture", "file": "metamodule.sunsynth", "edits": [["mod", -1, "pay", "m_count", 96], ["mod", -1, "pay", "m_map_inplace", 70, 0xFFF0, 7], ["mod", -1, "pay", "m_map_inplace", 80, 0xFFF1, 3], ["mod", -1, "pay", "m_label", 5, "cutoff"], ["mod", -1, "pay", "m_label", 95, "last one"]], "saves": [None, None, None, None, None]}
    try:
        body(case)
    except PropertyViolation as v_:
        ctx.check(False, v_.sub_oracle, v_.detail, key=v_.key, recipe={"tag": "edit_history", "case": case})
    run_property(ctx, short_mappings_case(), body, desc["examples"], tag="edit_history", bucket="short_mappings")


def run_shard(ctx, desc):
    if desc["kind"] == "edit_history":
        run_edit_history(ctx, desc)
        return
    if desc["kind"] == "short_mappings":
        run_short_mappings(ctx, desc)
        return
    def body(ms):
        ctx.case()
        labels = check_meta(ctx, ms)
        ctx.label(*labels)
        n = ms["payload"]["count"]
        if (n >= 1 and labels & {"map_enum", "map_bool", "map_negative_range", "map_dependent"}) or depth_of(ms) >= 1:
            ctx.mark_nontrivial(ms)
        if len(repr(ms)) < 1500:
            ctx.sample(ms)

    if desc.get("chain"):
        run_property(ctx, chain_spec(), body, desc["examples"], tag="meta", bucket="meta")
        return
    depth = st.integers(0, desc["max_depth"])
    strat = depth.flatmap(lambda d: meta_spec(d, in_project=True))
    run_property(ctx, strat, body, desc["examples"], tag="meta", bucket="meta")


def replay(ctx, doc):
    if doc["recipe"].get("tag") == "edit_history":
        from checks import c06

        c06.run_case(ctx, doc["recipe"]["case"])
        return
    check_meta(ctx, doc["recipe"]["case"])
