"""specs/fileformat.yaml as plain data (oracle side; shares no code with rv/genrv)."""

from __future__ import annotations

import os
from functools import lru_cache

from vlib.harness import REPO, HarnessError


def mangle(key):
    """Enum-key -> identifier, re-implemented from the documented rules
    ("/"->_div_, "*"->_mul_, "."->_, "+"->_plus_, "-"->_neg_, "^"->_pow_,
    leading digit gets "_", leading "_" dropped, "__" collapsed, lower-case)."""
    key = str(key)
    for a, b in (("/", "_div_"), ("*", "_mul_"), (".", "_"), ("+", "_plus_"), ("-", "_neg_"), ("^", "_pow_")):
        key = key.replace(a, b)
    if key[0].isdigit():
        key = "_" + key
    elif key[0] == "_":
        key = key[1:]
    while "__" in key:
        key = key.replace("__", "_")
    return key.lower()


class Ctl:
    __slots__ = ("name", "number", "kind", "min", "max", "default", "enum", "members", "depends_on", "ranges", "raw")

    def domain(self, unit=None):
        """(min, max) for ranged kinds (dependent: for the given unit member name)."""
        if self.kind == "dependent":
            r = self.ranges[unit]
            return r
        return (self.min, self.max)

    def offset(self, unit=None):
        """stored = user - offset"""
        if self.kind in ("range", "compact"):
            return self.min if self.min < 0 else 0
        if self.kind == "dependent":
            lo = self.ranges[unit][0]
            return lo if lo < 0 else 0
        return 0


class Opt:
    __slots__ = ("name", "byte", "bit", "size", "number", "default", "inverted", "exclusive_of", "min", "max", "enum", "raw")


class ModType:
    __slots__ = ("cls_name", "mtype", "group", "flags", "enums", "controllers", "options", "options_chnm", "chunks", "raw")

    def ctl(self, name):
        for c in self.controllers:
            if c.name == name:
                return c
        raise KeyError(name)


@lru_cache(maxsize=1)
def load():
    try:
        import yaml
    except ImportError as e:  # pragma: no cover
        raise HarnessError("PyYAML missing: %s" % e)
    path = os.path.join(REPO, "specs", "fileformat.yaml")
    with open(path) as f:
        doc = yaml.safe_load(f)
    out = {}
    for cls_name, m in doc["module_types"].items():
        mt = ModType()
        mt.raw = m
        mt.cls_name = cls_name
        mt.mtype = m.get("type") or cls_name
        mt.group = m.get("group")
        mt.flags = m.get("defaultFlags") or 0
        mt.enums = {en: {mangle(k): v for k, v in e.items()} for en, e in (m.get("enums") or {}).items()}
        mt.options_chnm = m.get("options_chnm")
        mt.chunks = m.get("chunks") or []
        mt.controllers = []
        cmap = {}
        for item in m.get("controllers") or []:
            for cname, cd in item.items():
                cmap[cname] = cd
        num = 0
        for item in m.get("controllers") or []:
            for cname, cd in item.items():
                num += 1
                c = Ctl()
                c.raw = cd
                c.name = "in_" if cname == "in" else cname
                c.number = num
                c.min = c.max = c.enum = c.members = c.depends_on = c.ranges = None
                if "min" in cd and "max" in cd:
                    c.kind = "compact" if cd.get("compact") else "no_offset" if cd.get("no_offset") else "range"
                    c.min, c.max = cd["min"], cd["max"]
                    c.default = cd["default"]
                elif "enum" in cd:
                    c.kind = "enum"
                    c.enum = cd["enum"]
                    c.members = mt.enums[cd["enum"]]
                    c.default = mangle(cd["default"])
                elif "bool" in cd:
                    c.kind = "bool"
                    c.default = bool(cd["default"])
                elif "depends_on" in cd:
                    c.kind = "dependent"
                    c.depends_on = cd["depends_on"]
                    c.enum = cmap[cd["depends_on"]]["enum"]
                    c.ranges = {mangle(k): (r["min"], r["max"]) for k, r in cd["ranges"].items()}
                    c.default = cd["default"]
                else:
                    raise HarnessError("unclassified controller %s.%s" % (cls_name, cname))
                mt.controllers.append(c)
        mt.options = []
        for item in m.get("options") or []:
            for oname, od in item.items():
                o = Opt()
                o.raw = od
                o.name = oname
                o.byte, o.bit, o.size = od["byte"], od["bit"], od["size"]
                o.number = od.get("number")
                o.inverted = bool(od.get("inverted", False))
                o.exclusive_of = list(od.get("exclusive_of") or [])
                o.min, o.max = od.get("min"), od.get("max")
                o.enum = od.get("enum")
                o.default = od["default"]
                mt.options.append(o)
        out[cls_name] = mt
    return out


def by_mtype():
    return {m.mtype: m for m in load().values()}
