"""Run a few lines of Python in a *fresh* interpreter that is configured differently from the
check's own process (interpreter flags, what happens before the library is imported), and get a
JSON value back.  Some of a library's behaviour is fixed while it is being imported, or depends on
how the interpreter was started; a check process that has the library imported already cannot
vary either."""

from __future__ import annotations

import json
import os
import subprocess
import sys

from vlib.harness import RV_SRC, VERIF, HarnessError

VARIANTS = {
    # name: (interpreter flags, environment additions, code run before the library is imported)
    "plain": ([], {}, ""),
    "logging_everything_before_import": ([], {}, "import logging\nlogging.basicConfig(level=1)\nlogging.getLogger().setLevel(1)\n"),
    "logging_debug_before_import": ([], {}, "import logging\nlogging.basicConfig(level=logging.DEBUG)\n"),
    "warnings_are_errors": (["-W", "error"], {}, ""),
    "optimized": (["-O"], {}, ""),
    "optimized_twice": (["-OO"], {}, ""),
    "other_hash_seed": ([], {"PYTHONHASHSEED": "4242"}, ""),
    # other first imports than `rv.api` (only orders that work on the unchanged library: importing
    # rv.project or rv.note first runs into the package's import cycle, which no property is about)
    "submodules_first": ([], {}, "from rv.modules.sampler import Sampler\nimport rv.modules.metamodule, rv.modules.multictl, rv.synth\n"),
    "readers_first": ([], {}, "import rv.readers.reader\nimport rv.controller, rv.option\n"),
    "utf8_mode_off_c_locale": (["-X", "utf8=0"], {"LC_ALL": "C", "LANG": "C"}, ""),
    "isolated_cwd": ([], {"_CWD": "/"}, ""),
    "dev_mode": (["-X", "dev"], {}, ""),
}


def run(variant, body, timeout=300):
    """body: Python source that assigns a JSON-able value to RESULT.  Returns that value."""
    flags, env_add, pre = VARIANTS[variant]
    src = "import sys\nsys.path[:0] = [%r, %r]\n%s\n%s\nimport json\nsys.stdout.write('\\n@@RESULT@@' + json.dumps(RESULT))\n" % (RV_SRC, VERIF, pre, body)
    env = dict(os.environ)
    env.setdefault("PYTHONHASHSEED", "0")
    env["PYTHONDONTWRITEBYTECODE"] = "1"
    cwd = None
    for k, v in env_add.items():
        if k == "_CWD":
            cwd = v
        else:
            env[k] = v
    r = subprocess.run([sys.executable] + flags + ["-c", src], capture_output=True, text=True, env=env, cwd=cwd, timeout=timeout)
    if "@@RESULT@@" not in r.stdout:
        return {"__failed__": True, "returncode": r.returncode, "stderr": r.stderr[-1500:], "stdout": r.stdout[-300:]}
    return json.loads(r.stdout.split("@@RESULT@@", 1)[1])


def digests_agree(ctx, prop, module, fn, variants):
    """`module.fn()` returns {name: digest}: what it gives in freshly started interpreters (see VARIANTS) must be
    what it gives in this process."""
    import importlib

    from vlib.harness import Ctx  # noqa: F401

    here = getattr(importlib.import_module(module), fn)()
    body = "from %s import %s as _f\nimport logging\nlogging.disable(logging.CRITICAL)\nRESULT = _f()\n" % (module, fn)
    for v in variants:
        res = run(v, body)
        rec = {"op": "interpreter", "variant": v}
        ctx.case(len(here))
        if res.get("__failed__"):
            ctx.check(False, prop + ".interpreter.fails", "in a fresh interpreter (%s): rc=%r %s" % (v, res.get("returncode"), (res.get("stderr") or "")[-400:]), key=prop + ".interpreter:" + v, recipe=rec)
            continue
        bad = sorted(k for k in here if res.get(k) != here[k])
        ctx.check(not bad, prop + ".interpreter.differs", "in an interpreter started as %r, %r gives %r, here %r" % (v, bad[:1], res.get(bad[0]) if bad else None, here.get(bad[0]) if bad else None), key=prop + ".interpreter:" + v, recipe=rec)
        ctx.label("interpreter_" + v)
        ctx.mark_nontrivial(rec)
