"""Recipes (plain JSON-able data) for modules, synths and projects, the Hypothesis
strategies that generate them, and the interpreter that builds the real objects through
the library's public API."""

from __future__ import annotations

import struct

from hypothesis import strategies as st

from vlib import specmodel
from vlib import strategies as vs

ATTACHABLE = None


def attachable_types():
    global ATTACHABLE
    if ATTACHABLE is None:
        ATTACHABLE = sorted(n for n in specmodel.load() if n != "Output")
    return ATTACHABLE


LIGHT_TYPES = ["Amplifier", "Filter", "Generator", "Echo", "Lfo", "MultiSynth", "Delay", "Distortion"]

# ---------------------------------------------------------------------------------------
# strategies: common module fields

u8 = st.integers(0, 255)
color = st.lists(u8, min_size=3, max_size=3)


def common_fields(in_project=True, light=False):
    d = {
        "name": vs.name_text(),
        "flags": vs.u32(extra=(0x51, 0x49, 0x80, 0x100, 0x4000)),
        "mod_finetune": vs.i32(extra=(-256, 256)),
        "mod_relative_note": vs.i32(extra=(-128, 128)),
        "mod_scale": vs.u32(extra=(100, 256, 400)),
        "color": color,
        "midi_in_always": st.booleans(),
        "midi_in_channel": st.one_of(st.integers(0, 16), vs.edge_int(0, 2**30)),
        "midi_out_name": st.one_of(st.none(), vs.text_no_nul(20)),
        "midi_out_channel": st.one_of(st.integers(0, 16), vs.edge_int(0, 2**31 - 1)),
        "midi_out_bank": vs.edge_int(-1, 2**31 - 1, extra=(0, 127, 16383)),
        "midi_out_program": vs.edge_int(-1, 2**31 - 1, extra=(0, 127)),
    }
    if in_project:
        d.update(
            {
                "x": vs.i32(extra=(512, 1024)),
                "y": vs.i32(extra=(512, 1024)),
                "layer": st.one_of(st.integers(0, 7), vs.edge_int(0, 2**30)),
                "visualization": vs.u32(extra=(0x000C0101,)),
            }
        )
    # each field independently present or left at its default
    return st.fixed_dictionaries({}, optional=d)


cmid_entry = st.tuples(st.integers(0, 8), u8, st.integers(0, 5), vs.edge_int(0, 65535)).map(list)


@st.composite
def controller_sets(draw, mt, dense=False):
    """List of [name, value] assignments whose final state is in range (dependants within the final unit's range)."""
    ctls = [c for c in mt.controllers]
    if not ctls:
        return []
    if dense:
        chosen = ctls
    else:
        chosen = draw(st.lists(st.sampled_from(ctls), max_size=min(8, len(ctls)), unique_by=lambda c: c.name))
    units = {}
    # decide final units first
    for c in chosen:
        if c.kind == "enum" and any(d.kind == "dependent" and d.depends_on == c.name for d in mt.controllers):
            units[c.name] = draw(st.sampled_from(sorted(c.members)))
    sets = []
    for c in chosen:
        if c.name in units:
            sets.append([c.name, ["enum", units[c.name]]])
        elif c.kind == "dependent":
            unit = units.get(c.depends_on)
            if unit is None:
                unit = specmodel_default_unit(mt, c)
            sets.append([c.name, draw(vs.ctl_values(c, unit))])
        else:
            sets.append([c.name, draw(vs.ctl_values(c))])
    # order: any permutation (units before or after their dependants)
    perm = draw(st.permutations(sets)) if len(sets) > 1 else sets
    return list(perm)


def specmodel_default_unit(mt, c):
    return mt.ctl(c.depends_on).default


@st.composite
def option_sets(draw, mt):
    if not mt.options:
        return []
    chosen = draw(st.lists(st.sampled_from(mt.options), max_size=min(6, len(mt.options)), unique_by=lambda o: o.name))
    out = []
    for o in chosen:
        if o.name == "user_defined_controllers":
            continue  # set through the MetaModule payload
        if o.size == 1:
            out.append([o.name, draw(st.booleans())])
        elif o.min is not None:
            out.append([o.name, draw(st.integers(o.min, o.max))])
        else:
            out.append([o.name, draw(st.integers(0, (1 << o.size) - 1))])
    return out


@st.composite
def cmid_sets(draw, mt):
    if not mt.controllers:
        return []
    chosen = draw(st.lists(st.sampled_from(mt.controllers), max_size=min(4, len(mt.controllers)), unique_by=lambda c: c.name))
    return [[c.name] + draw(cmid_entry) for c in chosen]


# ---------------------------------------------------------------------------------------
# strategies: payloads


def arr(elem, n):
    return st.one_of(
        st.lists(elem, min_size=n, max_size=n),
        elem.map(lambda v: [v] * n),
    )


f32 = st.floats(width=32, allow_nan=False, allow_infinity=False)
wave32 = st.lists(st.integers(-128, 127), min_size=32, max_size=32)


@st.composite
def envelope(draw, lo, hi, narrow):
    npts = draw(st.one_of(st.integers(0, 6), st.integers(0, 64) if not narrow else st.integers(0, 40)))
    pts = [[draw(vs.edge_int(0, 65535)), draw(vs.edge_int(lo, hi))] for _ in range(npts)]
    top = 255 if narrow else 65535
    return {
        "points": pts,
        "enable": draw(st.booleans()),
        "sustain": draw(st.booleans()),
        "loop": draw(st.booleans()),
        "ctl_index": draw(u8),
        "gain_pct": draw(u8),
        "velocity": draw(u8),
        "sustain_point": draw(vs.edge_int(0, top)),
        "loop_start_point": draw(vs.edge_int(0, top)),
        "loop_end_point": draw(vs.edge_int(0, top)),
    }


sample_name = st.one_of(st.binary(max_size=22), st.binary(max_size=22), vs.bytes_with_magic(22), st.binary(max_size=18).map(lambda b: b + b"  "), st.sampled_from([b" ", b"a ", b"\t", b" x", b"name\n"])).map(lambda b: b.rstrip(b"\0")).map(lambda b: b.hex())


@st.composite
def sample(draw):
    return {
        "data": draw(st.one_of(st.just(b""), st.binary(max_size=64), st.binary(max_size=2048), vs.bytes_with_magic(64))).hex(),  # a slot with no frames yet is a sample too
        "format": draw(st.sampled_from(["int8", "int16", "float32"])),
        "channels": draw(st.sampled_from(["mono", "stereo"])),
        "rate": draw(vs.u32(extra=(44100, 48000, 8000))),
        "loop_start": draw(vs.u32()),
        "loop_len": draw(vs.u32()),
        "loop_type": draw(st.sampled_from(["off", "forward", "ping_pong"])),
        "loop_sustain": draw(st.booleans()),
        "volume": draw(u8),
        "finetune": draw(st.integers(-128, 127)),
        "panning": draw(st.integers(-128, 127)),
        "relative_note": draw(st.integers(-128, 127)),
        "reserved2": draw(u8),
        "name": draw(sample_name),
        "start_pos": draw(vs.u32()),
    }


@st.composite
def sampler_payload(draw, depth):
    slots = draw(st.lists(st.one_of(st.sampled_from([0, 1, 2, 63, 126, 127]), st.integers(0, 127)), max_size=4, unique=True))
    p = {"samples": [[i, draw(sample())] for i in sorted(slots)]}
    # the same Sample object put into further slots (a user re-using one recording for several slots)
    if slots and draw(st.integers(0, 3)) == 0:
        free = [i for i in (3, 5, 64, 125, 127, 0) if i not in slots]
        k = draw(st.integers(1, 2))
        p["sample_aliases"] = [[free[j], draw(st.sampled_from(sorted(slots)))] for j in range(min(k, len(free)))]
    # now and then one sample is long (chunk payloads of 64 KiB and of more than 1 MiB)
    if p["samples"] and draw(st.integers(0, 11)) == 0:
        p["samples"][0][1]["data_big"] = draw(st.sampled_from([65535, 65536, 70001, (1 << 20) + 17]))
    env = {}
    which = draw(st.lists(st.sampled_from(["volume", "panning", "pitch", "fx0", "fx1", "fx2", "fx3"]), max_size=3, unique=True))
    for w in which:
        if w == "volume":
            env[w] = draw(envelope(0, 0x8000, True))
        elif w == "panning":
            env[w] = draw(envelope(-0x4000, 0x4000, True))
        elif w == "pitch":
            env[w] = draw(envelope(-0x4000, 0x4000, False))
        else:
            env[w] = draw(envelope(0, 0x8000, False))
    p["envelopes"] = env
    if draw(st.booleans()):
        special = st.sampled_from([0x20, 0x00, 0x09, 0x0A, 0x0D, 0xFF, 0x7F, 0x80])
        tail = st.tuples(st.lists(u8, min_size=119, max_size=119), st.integers(1, 119), special).map(lambda t: t[0][: 119 - t[1]] + [t[2]] * t[1])
        p["note_map"] = draw(st.one_of(st.lists(u8, min_size=119, max_size=119), u8.map(lambda v: [v] * 119), special.map(lambda v: [v] * 119), tail, vs.bytes_with_magic(119).map(lambda b: list(b.ljust(119, b"\0")))))
    fields = {
        "vibrato_type": st.sampled_from(["sin", "saw", "square"]),
        "vibrato_attack": u8,
        "vibrato_depth": u8,
        "vibrato_rate": st.integers(0, 63),
        "volume_fadeout": vs.edge_int(0, 8192),
        "instrument_name": sample_name,
        "volume_old": u8,
        "ins_finetune": st.integers(-128, 127),
        "ins_relative_note": st.integers(-128, 127),
        "editor_cursor": vs.i32(),
        "editor_selected_size": vs.i32(),
        # the instrument's format version: mostly one of the few values SunVox has ever written
        "max_version": st.one_of(st.integers(0, 7), vs.u32(extra=(6,))),
        "version": st.one_of(st.integers(0, 7), vs.u32(extra=(6,))),
        "unused1": vs.u32(),
        "unused2": vs.edge_int(0, 65535),
        "unused3": vs.edge_int(0, 65535),
        "unused4": vs.u32(),
        "unused5": u8,
        "unused6": vs.u32(),
    }
    p["fields"] = draw(st.fixed_dictionaries({}, optional=fields))
    if depth > 0 and draw(st.integers(0, 3)) == 0:
        p["effect"] = draw(module_spec(in_project=False, depth=depth - 1, types=[t for t in LIGHT_TYPES + ["Reverb", "Flanger", "WaveShaper"]]))
    return p


@st.composite
def metamodule_payload(draw, depth):
    inner = draw(project_spec(depth=depth - 1, max_modules=4, max_patterns=1, light=True)) if depth > 0 else {"modules": [], "patterns": [], "fields": {}, "links": []}
    n = draw(st.one_of(st.sampled_from([0, 1, 2, 27, 95, 96]), st.integers(0, 96)))
    p = {"project": inner, "count": n, "count_first": draw(st.booleans())}
    # mappings onto controllers of embedded modules (0-based controller index, as the library uses it)
    spec = specmodel.load()
    targets = []
    for mi, ms in enumerate(inner["modules"], 1):
        if ms is None:
            continue
        nct = len(spec[ms["type"]].controllers)
        for ci in range(nct):
            targets.append((mi, ci, ms["type"]))
    maps = []
    k = draw(st.integers(0, min(n, 6)))
    idxs = draw(st.lists(st.integers(0, max(0, n - 1)), min_size=k, max_size=k, unique=True)) if n else []
    # the mapping table always has 96 entries: entries at and beyond the count are data too
    beyond = draw(st.lists(st.sampled_from(sorted({min(95, n), min(95, n + 1), 63, 64, 95})), max_size=2, unique=True)) if draw(st.booleans()) else []
    idxs = idxs + [i for i in beyond if i not in idxs]
    for i in idxs:
        if targets and draw(st.booleans()):
            mi, ci, _ = draw(st.sampled_from(targets))
            maps.append([i, mi, ci])
        else:
            maps.append([i, draw(vs.edge_int(0, 65535)), draw(vs.edge_int(0, 65535))])
    p["mappings"] = maps
    kl = draw(st.integers(0, min(n, 4)))
    lidx = draw(st.lists(st.integers(0, max(0, n - 1)), min_size=kl, max_size=kl, unique=True)) if n else []
    p["labels"] = [[i, draw(st.one_of(vs.text_no_nul(12), vs.text_no_nul(12), st.sampled_from(["cutoff", "res", "mix", "vol", "depth", "rate"]), vs.long_text(), st.sampled_from(["User Defined %d" % (i + 1), "User Defined %d" % (i + 2), "user defined %d" % (i + 1)])))] for i in lidx]
    kc = draw(st.integers(0, min(n, 3)))
    cidx = draw(st.lists(st.integers(0, max(0, n - 1)), min_size=kc, max_size=kc, unique=True)) if n else []
    p["user_cmid"] = [[i] + draw(cmid_entry) for i in cidx]
    return p


@st.composite
def payload_for(draw, tname, depth):
    p = {}
    if tname == "MultiSynth":
        if draw(st.booleans()):
            p["nv_curve"] = draw(arr(u8, 128))
        if draw(st.booleans()):
            p["vv_curve"] = draw(arr(u8, 257))
        if draw(st.booleans()):
            p["np_curve"] = draw(arr(vs.edge_int(0, 65535), 128))
    elif tname == "WaveShaper":
        if draw(st.booleans()):
            p["curve"] = draw(arr(vs.edge_int(0, 65535), 256))
    elif tname == "MultiCtl":
        if draw(st.booleans()):
            p["curve"] = draw(arr(vs.edge_int(0, 0x8000), 257))
        n = draw(st.integers(0, 3))
        p["mappings"] = [[draw(st.integers(0, 15))] + [draw(vs.u32()) for _ in range(8)] for _ in range(n)]
    elif tname == "SpectraVoice":
        n = draw(st.integers(0, 3))
        p["harmonics"] = [[draw(st.integers(0, 15)), draw(vs.edge_int(0, 65535)), draw(u8), draw(u8), draw(st.integers(0, 18))] for _ in range(n)]
    elif tname == "Fmx":
        if draw(st.booleans()):
            p["custom_waveform"] = draw(arr(f32, 256))
            if draw(st.integers(0, 2)) == 0:
                # every 32-bit pattern is a sample value: also the largest finite ones, the infinities and NaN
                # (non-finite values travel through the JSON recipes as strings)
                for _ in range(draw(st.integers(1, 4))):
                    p["custom_waveform"][draw(st.integers(0, 255))] = draw(st.sampled_from(["inf", "-inf", "nan", 3.4028234663852886e38, -3.4028234663852886e38, 1.401298464324817e-45, -0.0]))
    elif tname in ("Generator", "AnalogGenerator"):
        if draw(st.booleans()):
            p["samples"] = draw(wave32)
    elif tname == "VorbisPlayer":
        if draw(st.booleans()):
            p["data"] = draw(st.binary(max_size=300)).hex()
    elif tname == "Sampler":
        p = draw(sampler_payload(depth))
    elif tname == "MetaModule":
        p = draw(metamodule_payload(depth))
    return p


@st.composite
def module_spec(draw, in_project=True, depth=1, types=None, tname=None, dense=False):
    spec = specmodel.load()
    if tname is None:
        pool = types or attachable_types()
        if depth <= 0:
            pool = [t for t in pool if t not in ("MetaModule",)] or LIGHT_TYPES
        tname = draw(st.sampled_from(pool))
    mt = spec[tname]
    common = draw(common_fields(in_project))
    if draw(st.integers(0, 9)) == 0:
        common["name"] = draw(st.sampled_from([mt.mtype, mt.cls_name, mt.mtype.lower(), "Output", mt.mtype + " ", ""]))
    ms = {
        "type": tname,
        "common": common,
        "sets": draw(controller_sets(mt, dense=dense)),
        "options": draw(option_sets(mt)),
        "cmid": draw(cmid_sets(mt)),
        "payload": draw(payload_for(tname, depth)),
    }
    # a few controller values through the constructor instead of setattr
    if ms["sets"] and draw(st.booleans()):
        k = draw(st.integers(0, len(ms["sets"])))
        fixed = [c.name for c in mt.controllers if c.kind != "dependent"]
        ms["ctor"] = [s for s in ms["sets"][:k] if s[0] in fixed and not any(d.kind == "dependent" and d.depends_on == s[0] for d in mt.controllers)]
        names = {s[0] for s in ms["ctor"]}
        ms["sets"] = [s for s in ms["sets"] if s[0] not in names]
    # the groups of assignments happen in any order (MetaModule: the payload stays last, because its
    # count is also an option and the recipe's count is what the checks' models take as final)
    if draw(st.booleans()):
        head = ["sets", "options", "common", "cmid"] + ([] if tname == "MetaModule" else ["payload"])
        ms["phase_order"] = list(draw(st.permutations(head))) + (["payload"] if tname == "MetaModule" else [])
    return ms


# ---------------------------------------------------------------------------------------
# strategies: patterns and projects

NOTECMDS = list(range(0, 121)) + [128, 129, 130, 131, 132, 133, 134, 140]
u16 = vs.edge_int(0, 0xFFFF)
full_cell = st.tuples(st.sampled_from(NOTECMDS), vs.edge_int(0, 129), u16, u16, u16).map(list)


@st.composite
def single_field_cell(draw):
    """Tracker-style partial cell: exactly one column set."""
    c = [0, 0, 0, 0, 0]
    i = draw(st.integers(0, 4))
    c[i] = draw([st.sampled_from(NOTECMDS[1:]), st.integers(1, 129), vs.edge_int(1, 0xFFFF), vs.edge_int(1, 0xFFFF), vs.edge_int(1, 0xFFFF)][i])
    return c


cell = st.one_of(full_cell, full_cell, single_field_cell())


BIG_PATTERNS = {"on": False}


@st.composite
def pattern_spec(draw, max_lines=16, max_tracks=6):
    if BIG_PATTERNS["on"] and draw(st.integers(0, 24)) == 0:
        # a few large patterns (up to the documented 32 tracks, thousands of lines)
        max_lines, max_tracks = draw(st.sampled_from([256, 1024, 2048])), 32
    return draw(_pattern_spec(max_lines, max_tracks))


@st.composite
def _pattern_spec(draw, max_lines=16, max_tracks=6):
    kind = draw(st.sampled_from(["pattern", "pattern", "pattern", "clone", "empty"]))
    if kind == "empty":
        return None
    if kind == "clone":
        return {
            "kind": "clone",
            "source": draw(vs.u32(extra=(0, 1, 2))),
            "flags_PFFF": draw(vs.u32(extra=(1,))),
            "x": draw(vs.i32()),
            "y": draw(vs.i32()),
        }
    tracks = draw(vs.edge_int(1, max_tracks))
    lines = draw(vs.edge_int(1, max_lines))
    ncells = draw(st.integers(0, min(8, tracks * lines)))
    cells = [[draw(st.integers(0, lines - 1)), draw(st.integers(0, tracks - 1)), draw(cell)] for _ in range(ncells)]
    fields = {
        "name": st.one_of(st.none(), vs.text_no_nul(16)),
        "y_size": vs.u32(extra=(32,)),
        "flags_PFLG": vs.u32(extra=(0, 1, 2)),
        "icon": st.binary(min_size=32, max_size=32).map(lambda b: b.hex()),
        "fg_color": color,
        "bg_color": color,
        "flags_PFFF": vs.u32(extra=(0, 2, 8, 0x10)),
        "x": vs.i32(),
        "y": vs.i32(),
    }
    return {"kind": "pattern", "tracks": tracks, "lines": lines, "cells": cells, "fields": draw(st.fixed_dictionaries({}, optional=fields))}


PROJECT_FIELD_STRATS = {
    "based_on_version": st.lists(u8, min_size=4, max_size=4),
    "flags": vs.u32(extra=(1,)),
    "receive_sync_midi": st.integers(0, 7),
    "receive_sync_other": st.integers(0, 7),
    "initial_bpm": vs.u32(extra=(125, 1, 1000)),
    "initial_tpl": vs.u32(extra=(6, 1, 31)),
    "time_grid": vs.u32(extra=(4, 2, 32)),
    "time_grid2": vs.u32(extra=(4, 2, 32)),
    "global_volume": vs.u32(extra=(80, 512)),
    "name": vs.text_no_nul(40),
    "modules_scale": vs.u32(extra=(256,)),
    "modules_zoom": vs.u32(extra=(256,)),
    "modules_x_offset": vs.i32(),
    "modules_y_offset": vs.i32(),
    "modules_layer_mask": vs.u32(extra=(0xFF,)),
    "modules_current_layer": vs.u32(extra=(7,)),
    "timeline_position": vs.i32(),
    "restart_position": vs.i32(),
    "selected_module": st.one_of(vs.u32(extra=(255,)), st.integers(0, 12)),  # also small numbers: positions that exist, are empty, or lie just past the end
    "selected_generator": st.one_of(vs.edge_int(-1, 2**31 - 1, extra=(0, 255)), st.integers(-1, 12)),
    "current_pattern": vs.u32(),
    "current_track": vs.u32(),
    "current_line": vs.u32(),
}


@st.composite
def project_spec(draw, depth=1, max_modules=6, max_patterns=3, light=False, types=None, top=False):
    nm = draw(st.integers(0, max_modules))
    pool = types or (LIGHT_TYPES if light else None)
    mods = [draw(module_spec(in_project=True, depth=depth, types=pool)) for _ in range(nm)]
    npat = draw(st.integers(0, max_patterns))
    pats = [draw(pattern_spec()) for _ in range(npat)]
    n = nm + 1
    nl = draw(st.integers(0, min(10, n * 2)))
    links = []
    for _ in range(nl):
        a = draw(st.integers(0, n - 1))
        b = draw(st.integers(0, n - 1))
        links.append([draw(st.sampled_from(["c", "c", "c", "d"])), a, b])
    out = {"modules": mods, "patterns": pats, "fields": draw(st.fixed_dictionaries({}, optional=PROJECT_FIELD_STRATS)), "links": links}
    # the version the file is written as is the user's choice too (old versions have 8-bit module columns in patterns)
    # macro MultiCtls made with the helper for controllers of the modules above (name given or left out)
    if nm and draw(st.integers(0, 5)) == 0:
        spec_ = specmodel.load()
        macros = []
        for _ in range(draw(st.integers(1, 2))):
            idxs = draw(st.lists(st.integers(1, nm), min_size=1, max_size=min(3, nm), unique=True))
            pairs = []
            for mi in idxs:
                ctls = spec_[mods[mi - 1]["type"]].controllers
                if ctls:
                    pairs.append([mi, draw(st.integers(0, len(ctls) - 1))])
            if pairs:
                macros.append({"targets": pairs, "name": draw(st.one_of(st.none(), vs.name_text(12))), "initial": draw(st.one_of(st.none(), vs.edge_int(0, 32768)))})
        if macros:
            out["macros"] = macros
    # chains of pattern clones: a clone of a clone of ... of a pattern or of an empty position
    if draw(st.integers(0, 7)) == 0:
        k = draw(st.integers(1, 4))
        first = draw(st.sampled_from([0, 0, 1]))
        chain = [None if first == 0 else draw(_pattern_spec(4, 3))]
        for j in range(k):
            chain.append({"kind": "clone", "source": len(pats) + j, "flags_PFFF": draw(vs.u32(extra=(1,))), "x": draw(vs.i32()), "y": draw(vs.i32())})
        out["patterns"] = pats + chain
    # empty module positions attached after the last module (they vanish when the file is loaded)
    te = draw(st.sampled_from([0, 0, 0, 1, 2]))
    if te:
        out["trailing_empty"] = te
    ver = draw(st.sampled_from([None, None, None, [1, 9, 4, 2], [1, 7, 0, 0], [1, 9, 5, 0], [2, 0, 0, 0]]))
    if ver:
        out["sunvox_version"] = ver
    if top and nm >= 2 and draw(st.integers(0, 2)) == 0:
        # interior empty positions: blank some module sections in the saved bytes, reload, continue
        k = draw(st.integers(1, nm - 1))
        out["blank"] = sorted(draw(st.lists(st.integers(1, nm), min_size=k, max_size=k, unique=True)))
        ne = draw(st.integers(0, 2))
        out["extra_modules"] = [draw(module_spec(in_project=True, depth=0, types=LIGHT_TYPES)) for _ in range(ne)]
    return out


# ---------------------------------------------------------------------------------------
# interpreter


def cls_of(tname):
    import rv.modules as m

    return m.MODULE_CLASSES[specmodel.load()[tname].mtype]


def lib_value(cls, cname, v):
    if isinstance(v, list) and v and v[0] == "enum":
        return getattr(cls.controllers[cname].value_type, v[1])
    return v


def apply_envelope(env, d):
    env.points = [(x, y) for x, y in d["points"]]
    for k in ("enable", "sustain", "loop", "ctl_index", "gain_pct", "velocity", "sustain_point", "loop_start_point", "loop_end_point"):
        setattr(env, k, d[k])


def make_sample(cls, d):
    s = cls.Sample()
    s.data = bytes.fromhex(d["data"])
    if d.get("data_big"):
        n = d["data_big"]
        s.data = (bytes.fromhex(d["data"]) + bytes(range(256)) * (n // 256 + 1))[:n]
    s.format = getattr(cls.Format, d["format"])
    s.channels = getattr(cls.Channels, d["channels"])
    s.loop_type = getattr(cls.LoopType, d["loop_type"])
    for k in ("rate", "loop_start", "loop_len", "loop_sustain", "volume", "finetune", "panning", "relative_note", "reserved2", "start_pos"):
        setattr(s, k, d[k])
    s.name = bytes.fromhex(d["name"])
    return s


def apply_payload(mod, tname, p):
    from rv.api import NOTE, Synth

    cls = type(mod)
    if tname == "MultiSynth":
        for k in ("nv_curve", "vv_curve", "np_curve"):
            if k in p:
                getattr(mod, k).values[:] = p[k]
    elif tname == "WaveShaper":
        if "curve" in p:
            mod.curve.values = list(p["curve"])
    elif tname == "MultiCtl":
        if "curve" in p:
            mod.curve.values[:] = p["curve"]
        for i, *fields in p.get("mappings", []):
            if p.get("_in_place"):
                # edit the existing Mapping object field by field
                mp = mod.mappings.values[i]
                mp.min, mp.max, mp.controller, mp.flags, mp.future_use2, mp.future_use3, mp.future_use4, mp.future_use5 = fields
            else:
                mod.mappings.values[i] = cls.Mapping(tuple(fields))
    elif tname == "SpectraVoice":
        for i, freq, vol, width, typ in p.get("harmonics", []):
            h = mod.harmonics[i]
            h.freq_hz, h.volume, h.width, h.type = freq, vol, width, cls.HarmonicType(typ)
    elif tname == "Fmx":
        if "custom_waveform" in p:
            mod.custom_waveform.values = [float(x) for x in p["custom_waveform"]]
    elif tname in ("Generator", "AnalogGenerator"):
        if "samples" in p:
            mod.drawn_waveform.samples = list(p["samples"])
    elif tname == "VorbisPlayer":
        if "data" in p:
            mod.data = bytes.fromhex(p["data"])
    elif tname == "Sampler":
        for i, sd in p.get("samples", []):
            mod.samples[i] = make_sample(cls, sd)
        for dst, src in p.get("sample_aliases", []):
            mod.samples[dst] = mod.samples[src]
        envs = p.get("envelopes", {})
        for k, d in envs.items():
            if k == "volume":
                apply_envelope(mod.volume_envelope, d)
            elif k == "panning":
                apply_envelope(mod.panning_envelope, d)
            elif k == "pitch":
                apply_envelope(mod.pitch_envelope, d)
            else:
                apply_envelope(mod.effect_control_envelopes[int(k[2])], d)
        if "note_map" in p:
            for k, v in zip(list(mod.note_samples.keys()), p["note_map"]):
                mod.note_samples[k] = v
        for k, v in p.get("fields", {}).items():
            if k == "vibrato_type":
                v = getattr(cls.VibratoType, v)
            elif k == "instrument_name":
                v = bytes.fromhex(v)
            setattr(mod, k, v)
        if p.get("effect"):
            mod.effect = Synth(make_module(p["effect"]))
    elif tname == "MetaModule":
        if p.get("project") is not None:
            fill_project(mod.project, p["project"])
        # the count and the mapping table are independent attributes: either may be assigned first
        if p.get("count_first"):
            mod.user_defined_controllers = p.get("count", 0)
        for i, mi, ci in p.get("mappings", []):
            if p.get("_in_place"):
                mod.mappings.values[i].module, mod.mappings.values[i].controller = mi, ci
            else:
                mod.mappings.values[i] = cls.Mapping((mi, ci))
        if not p.get("count_first"):
            mod.user_defined_controllers = p.get("count", 0)
        for i, text in p.get("labels", []):
            mod.user_defined[i].label = text
        from rv.cmidmap import MidiMessageType, Slope

        for i, mtype, channel, slope, param in p.get("user_cmid", []):
            mm = mod.controller_midi_maps["user_defined_%d" % (i + 1)]
            mm.message_type, mm.channel, mm.slope, mm.message_parameter = MidiMessageType(mtype), channel, Slope(slope), param


def make_module(ms, new_in=None):
    """Build the module of a recipe.  new_in=project: the module is created with
    project.new_module(cls, **kw) and everything else is assigned while it is attached."""
    tname = ms["type"]
    cls = cls_of(tname)
    kw = {}
    for name, v in ms.get("ctor", []):
        kw[name] = lib_value(cls, name, v)
    mod = cls(**kw) if new_in is None else new_in.new_module(cls, **kw)
    return apply_spec(mod, ms)


def apply_spec(mod, ms):
    """Apply the assignments of a module recipe to an existing module of that type (used both for
    construction and for editing an object that already exists / was already saved)."""
    from rv.cmidmap import MidiMessageType, Slope

    tname = ms["type"]
    cls = type(mod)

    def do_sets():
        for name, v in ms.get("ctor", []) if ms.get("_ctor_as_sets") else []:
            setattr(mod, name, lib_value(cls, name, v))
        for name, v in ms.get("sets", []):
            setattr(mod, name, lib_value(cls, name, v))

    def do_options():
        for name, v in ms.get("options", []):
            setattr(mod, name, v)

    def do_common():
        for k, v in ms.get("common", {}).items():
            if k == "color":
                v = tuple(v)
            setattr(mod, k, v)

    def do_cmid():
        for name, mtype, channel, slope, param in ms.get("cmid", []):
            mm = mod.controller_midi_maps[name]
            mm.message_type = MidiMessageType(mtype)
            mm.channel = channel
            mm.slope = Slope(slope)
            mm.message_parameter = param

    def do_payload():
        payload = ms.get("payload", {})
        if ms.get("_ctor_as_sets"):
            payload = dict(payload, _in_place=True)  # editing an existing object: touch its entries in place
        apply_payload(mod, tname, payload)

    phases = {"sets": do_sets, "options": do_options, "common": do_common, "cmid": do_cmid, "payload": do_payload}
    # the groups of assignments are independent of each other: a recipe may ask for any order
    for ph in ms.get("phase_order") or ["sets", "options", "common", "cmid", "payload"]:
        phases[ph]()
    return mod


def make_pattern(ps):
    from rv.api import NOTECMD, Pattern, PatternClone

    if ps is None:
        return None
    if ps["kind"] == "clone":
        return PatternClone(source=ps["source"], flags_PFFF=ps["flags_PFFF"], x=ps["x"], y=ps["y"])
    pat = Pattern(tracks=ps["tracks"], lines=ps["lines"])
    for k, v in ps.get("fields", {}).items():
        if k == "icon":
            v = bytes.fromhex(v)
        elif k in ("fg_color", "bg_color"):
            v = tuple(v)
        setattr(pat, k, v)
    for ln, tr, c in ps.get("cells", []):
        n = pat.data[ln][tr]
        n.note, n.vel, n.module, n.ctl, n.val = NOTECMD(c[0]), c[1], c[2], c[3], c[4]
    return pat


def fill_project(p, spec, defer_links=False):
    if spec.get("sunvox_version"):
        p.sunvox_version = tuple(spec["sunvox_version"])
    for k, v in spec.get("fields", {}).items():
        if k == "based_on_version":
            v = tuple(v)
        setattr(p, k, v)
    for i, ms in enumerate(spec.get("modules", [])):
        how = (i + len(spec.get("modules", []))) % 4
        if how == 3 and ms is not None:
            make_module(ms, new_in=p)
            continue
        mod = make_module(ms)
        if how == 0:
            p.attach_module(mod)
        elif how == 1:
            p += mod
        else:
            p += [mod]
    for _ in range(spec.get("trailing_empty", 0)):
        p.attach_module(None)
    for i, ps in enumerate(spec.get("patterns", [])):
        pat = make_pattern(ps)
        if pat is None or i % 2 == 0:
            p.attach_pattern(pat)
        else:
            p += pat
    if not defer_links:
        apply_links(p, spec)
        apply_macros(p, spec)
    return p


def apply_macros(p, spec):
    """MultiCtl.macro for the listed (module position, controller ordinal) targets; a macro the helper
    refuses (for example because an assigned unit changed what a target accepts) is simply not made."""
    from rv.api import m

    for mc in spec.get("macros", []):
        pairs = []
        for mi, ci in mc["targets"]:
            if mi < len(p.modules) and p.modules[mi] is not None:
                names = list(p.modules[mi].controllers)
                if ci < len(names) and p.modules[mi].controllers[names[ci]].attached(p.modules[mi]):
                    pairs.append((p.modules[mi], names[ci]))
        if not pairs:
            continue
        kw = {}
        if mc.get("name") is not None:
            kw["name"] = mc["name"]
        if mc.get("initial") is not None:
            kw["initial"] = mc["initial"]
        try:
            m.MultiCtl.macro(p, *pairs, **kw)
        except Exception:  # noqa: BLE001 - C20 decides what the helper must accept; here it only builds projects
            pass


def apply_links(p, spec):
    n = len(p.modules)
    for op, a, b in spec.get("links", []):
        if a >= n or b >= n:
            continue
        A, B = p.modules[a], p.modules[b]
        if A is None or B is None:
            continue
        if op == "c":
            A >> B
        else:
            A >> ~B


def blank_module_sections(data, indices):
    """Replace the module sections at the given positions by a bare SEND (an empty position)."""
    from vlib import chunktools

    chunks = chunktools.parse(data)
    head, pats, mods, tail = chunktools.module_sections(chunks)
    out = list(head)
    for sec in pats:
        out.extend(sec)
    for i, sec in enumerate(mods):
        if i in indices:
            out.append((b"SEND", b""))
        else:
            out.extend(sec)
    out.extend(tail)
    return chunktools.build(out)


def make_project(spec):
    from io import BytesIO

    from rv.api import Project, read_sunvox_file

    if not spec.get("blank"):
        return fill_project(Project(), spec)
    p = fill_project(Project(), spec, defer_links=True)
    data = blank_module_sections(p.read(), set(spec["blank"]))
    p = read_sunvox_file(BytesIO(data))
    for ms in spec.get("extra_modules", []):
        p.attach_module(make_module(ms))
    apply_links(p, spec)
    apply_macros(p, spec)
    return p


# ---------------------------------------------------------------------------------------
# labels / non-triviality


def module_labels(ms):
    labels = {"type_" + ms["type"]}
    spec = specmodel.load()[ms["type"]]
    for name, v in ms.get("sets", []) + ms.get("ctor", []):
        c = spec.ctl(name)
        if c.kind in ("range", "compact", "no_offset"):
            if v in (c.min, c.max):
                labels.add("ctl_at_range_end")
            if c.min < 0 and v == c.min:
                labels.add("neg_min_ctl_at_min")
        if c.kind == "dependent":
            labels.add("dependent_ctl_set")
        if c.kind == "enum" and any(d.kind == "dependent" and d.depends_on == name for d in spec.controllers):
            labels.add("unit_changed")
    if ms.get("payload"):
        pl = ms["payload"]
        if any(v not in (None, [], {}, 0) for v in pl.values()):
            labels.add("payload_nondefault")
        if ms["type"] == "Sampler" and pl.get("samples"):
            labels.add("sampler_with_samples")
            if any(i > 0 for i, _ in pl["samples"]):
                labels.add("sample_index_gt0")
        if ms["type"] == "Sampler" and pl.get("effect"):
            labels.add("sampler_with_effect")
        if ms["type"] == "MetaModule":
            labels.add("metamodule")
            if pl.get("count"):
                labels.add("metamodule_user_ctls")
            if pl.get("user_cmid"):
                labels.add("user_ctl_midi_binding")
    if ms.get("options"):
        labels.add("options_set")
    if ms.get("cmid"):
        labels.add("cmid_set")
    nm = ms.get("common", {}).get("name")
    if nm is not None and len(nm.encode("utf8")) > 30:
        labels.add("long_name")
        b = nm.encode("utf8")
        if len(b) > 32:
            try:
                b[:32].decode("utf8")
            except UnicodeDecodeError:
                labels.add("name_straddles_32")
    return labels


def module_nontrivial(labels):
    return bool(labels & {"ctl_at_range_end", "neg_min_ctl_at_min", "payload_nondefault", "dependent_ctl_set", "options_set", "cmid_set", "long_name"})


def scribble_nested(mod, salt=0):
    """Deterministically change values *inside* the containers a module holds (the modules of a
    MetaModule's embedded project, recursively; the module of a Sampler's embedded effect) and
    some list-valued payload entries, in place.  Returns the number of changes made.  Used to make
    one copy of a module differ from its siblings without replacing any object."""
    spec = specmodel.by_mtype()
    n = 0

    def scribble_module(x):
        nonlocal n
        mt = spec.get(getattr(x, "mtype", None))
        if mt is None:
            return
        for c in mt.controllers:
            if c.kind in ("range", "compact", "no_offset"):
                cur = getattr(x, c.name)
                setattr(x, c.name, c.max if cur != c.max else c.min)
                n += 1
                break
        inner(x)

    def inner(x):
        nonlocal n
        proj = getattr(x, "project", None) if type(x).__name__ == "MetaModule" else None
        if proj is not None:
            proj.name = (proj.name or "")[:8] + "~%d" % salt
            n += 1
            for sub in proj.modules[1:]:
                if sub is not None:
                    scribble_module(sub)
            for pat in proj.patterns:
                if pat is not None and type(pat).__name__ == "Pattern":
                    pat.data[0][0].vel = (pat.data[0][0].vel + 1) % 129
                    n += 1
        eff = getattr(x, "effect", None) if type(x).__name__ == "Sampler" else None
        if eff is not None and getattr(eff, "module", None) is not None:
            scribble_module(eff.module)

    inner(mod)
    return n


@st.composite
def nested_meta(draw, max_levels=4, in_project=True):
    """Recipe of a MetaModule whose embedded project holds a MetaModule whose embedded project holds ... (2..max_levels levels)."""
    ms = draw(module_spec(in_project=True, depth=1, tname="MetaModule"))
    for lvl in range(draw(st.integers(1, max_levels - 1))):
        outer = draw(module_spec(in_project=in_project if lvl == 0 else True, depth=1, tname="MetaModule"))
        outer["payload"]["project"]["modules"].append(ms)
        ms = outer
    return ms


def meta_depth(ms):
    if not ms or ms.get("type") != "MetaModule":
        return 0
    return 1 + max([meta_depth(x) for x in ms["payload"]["project"]["modules"]] + [0])


def failed_save_in_past(container, k=0):
    """Give `container` (a Project or Synth) a failed save in its past: one field somewhere inside it
    (a module's finetune - also of modules in embedded projects and of effect modules -, a sample's
    volume, a pattern's x) is set to a value that does not fit its file field, saving is attempted and
    fails, and the field gets its old value back.  Afterwards the object is in exactly the state it
    was in before, except that the library once failed to write it.  Returns what was done, or None
    when there was nothing to break / the save did not fail."""
    targets = []

    def walk_module(mod):
        targets.append((mod, "mod_finetune", 2**40))
        if type(mod).__name__ == "Sampler":
            for smp in mod.samples:
                if smp is not None:
                    targets.append((smp, "volume", 300))
                    break
            eff = getattr(mod, "effect", None)
            if eff is not None and getattr(eff, "module", None) is not None:
                walk_module(eff.module)
        if type(mod).__name__ == "MetaModule":
            walk_project(mod.project)

    def walk_project(proj):
        for mod in proj.modules[1:]:
            if mod is not None:
                walk_module(mod)
        for pat in proj.patterns:
            if pat is not None and type(pat).__name__ == "Pattern":
                targets.append((pat, "x", 2**40))
                break

    if type(container).__name__ == "Synth":
        walk_module(container.module)
    else:
        walk_project(container)
    if not targets:
        return None
    obj, attr, bad = targets[k % len(targets)]
    old = getattr(obj, attr)
    setattr(obj, attr, bad)
    failed = None
    try:
        if (k // 2) % 2 and attr == "mod_finetune" and type(container).__name__ == "Project" and getattr(obj, "parent", None) is container:
            # what fails is the export of one attached module as an instrument file, not the save of the project
            from rv.api import Synth

            Synth(obj).read()
        else:
            container.read()
    except Exception as e:  # noqa: BLE001 - any refusal will do
        failed = type(e).__name__
    finally:
        setattr(obj, attr, old)
    if failed is None:
        return None
    return "%s.%s <- %r: save failed with %s, value restored" % (type(obj).__name__, attr, bad, failed)


def big_payload_module_specs():
    """Module recipes whose file chunks are large: a Sampler with a sample of 64 KiB / just over
    1 MiB, a VorbisPlayer with more than 1 MiB of data (deterministic; used once per run)."""
    base = {"common": {}, "sets": [], "options": [], "cmid": []}
    smp = {"data": "00ff", "format": "int16", "channels": "stereo", "rate": 44100, "loop_start": 0, "loop_len": 0, "loop_type": "off", "loop_sustain": False, "volume": 64, "finetune": 0, "panning": 0, "relative_note": 0, "reserved2": 0, "start_pos": 0, "name": ""}
    out = []
    for n in (65536, (1 << 20) + 17):
        out.append(dict(base, type="Sampler", payload={"samples": [[0, dict(smp, data_big=n)], [5, dict(smp)]], "envelopes": {}, "fields": {}}))
    out.append(dict(base, type="VorbisPlayer", payload={"data": (bytes(range(251)) * 4300).hex()}))
    return out


# a Sampler's instrument record over the grid of the few format-version values SunVox has written and its editor fields
SAMPLER_RECORD_GRID = {"version": [0, 1, 3, 4, 5, 6, 7], "max_version": [0, 1, 3, 4, 5, 6, 7], "editor_cursor": [0, 3], "editor_selected_size": [0, 5]}


def sampler_record_grid_specs():
    """(fields, module spec) for every combination of SAMPLER_RECORD_GRID; every other one holds a sample, all
    carry instrument-wide tuning values."""
    import itertools

    names = sorted(SAMPLER_RECORD_GRID)
    smp = {"data": "0102030405060708", "format": "int8", "channels": "mono", "rate": 22050, "loop_start": 1, "loop_len": 2, "loop_type": "forward", "loop_sustain": True, "volume": 33, "finetune": -5, "panning": 7, "relative_note": 3, "reserved2": 0, "start_pos": 1, "name": "6162"}
    for k, combo in enumerate(itertools.product(*(SAMPLER_RECORD_GRID[n_] for n_ in names)), 1):
        fields = dict(zip(names, combo))
        yield fields, {"type": "Sampler", "common": {"name": "Sampler"}, "sets": [], "options": [], "cmid": [], "payload": {"samples": [[0, dict(smp)]] if k % 2 else [], "envelopes": {}, "fields": dict(fields, ins_finetune=-7, ins_relative_note=k % 5)}}


def short_sample_records(data, size=0x28):
    """Re-encode a Sampler file the way SunVox versions before the start_pos field wrote it: every sample
    record (module chunk number 2*i+1, i < 128) ends after the name."""
    import struct as _struct

    from vlib import chunktools

    chunks = chunktools.parse(data)
    out = []
    cut_next = False
    n = 0
    for cid, payload in chunks:
        if cid == b"CHNM" and len(payload) == 4:
            (num,) = _struct.unpack("<I", payload)
            cut_next = num % 2 == 1 and num < 256
        elif cid == b"CHDT" and cut_next:
            if len(payload) > size:
                payload = payload[:size]
                n += 1
            cut_next = False
        elif cid in (b"SEND", b"SFFF"):
            cut_next = False
        out.append((cid, payload))
    return chunktools.build(out), n


def short_array_chunk(data, chnm, nbytes):
    """Re-encode a synth file so that the top-level module's data chunk number `chnm` holds only its first
    `nbytes` bytes - the way a SunVox version wrote it when the array had fewer items."""
    import struct as _struct

    from vlib import chunktools

    chunks = chunktools.parse(data)
    out = []
    cut_next = False
    n = 0
    for cid, payload in chunks:
        if cid == b"CHNM" and len(payload) == 4:
            cut_next = _struct.unpack("<I", payload)[0] == chnm
        elif cid == b"CHDT" and cut_next:
            if len(payload) > nbytes:
                payload = payload[:nbytes]
                n += 1
            cut_next = False
        out.append((cid, payload))
    return chunktools.build(out), n


def set_chnk(data, value):
    """Re-encode a synth file so that its (top-level) module declares `value` data chunks - SunVox itself declares
    what the module needs (a MetaModule: 8 + number of user controllers), this library always the maximum."""
    import struct as _struct

    from vlib import chunktools

    out = []
    n = 0
    for cid, payload in chunktools.parse(data):
        if cid == b"CHNK" and len(payload) == 4 and n == 0:
            payload = _struct.pack("<I", value)
            n += 1
        out.append((cid, payload))
    return chunktools.build(out), n
