"""Link-operation recipes: interpreter against the real library, reference model, invariants.

Ops (modules are referred to by index in project.modules; everything JSON-able):

  ["new", type]                         project.new_module(type)
  ["rshift", a, b]                      a >> b                connect a -> b
  ["lshift", a, b]                      a << b                connect b -> a
  ["rshift_dis", a, b]                  a >> ~b               disconnect a -> b
  ["lshift_dis", a, b]                  a << ~b               disconnect b -> a
  ["rshift_list", a, [b..]]             a >> [b, ..]
  ["lshift_list", a, [b..]]             a << [b, ..]
  ["chain_r", a, [b..], d]              a >> [b, ..] >> d     (ModuleList returned by the first operator)
  ["chain_l", a, [b..], d]              a << [b, ..] << d
  ["mlist_r_dis", [a..], b]             ModuleList >> ~b  (list obtained as x >> [a..] first is not assumed; built directly)
  ["mlist_r_list", [a..], [b..]]        ModuleList >> [b, ..]          ["mlist_l_list", [a..], [b..]]   ModuleList << [b, ..]
  ["chain_r_list", a, [b..], [d..]]     a >> [b, ..] >> [d, ..]        ["chain_l_list", a, [b..], [d..]] a << [b, ..] << [d, ..]
  ["connect", [[i, neg]..], [[j, neg]..]]   project.connect(list, list) with ~ where neg
  ["connect_single", [i, neg], [j, neg]]     project.connect(mod, mod)
  ["x", spelling, a, f]                 cross-project operand f of the second project (must be refused)
  ["xlink", i, j, dis]                  a link operation inside the second project
  ["save_load"]                         project = read(project.read())        (C08)
"""

from __future__ import annotations

from io import BytesIO

from vlib.harness import PropertyViolation

def _link_types():
    from vlib import specmodel

    common = ["Amplifier", "Generator", "MultiSynth", "Echo", "MultiCtl", "Filter", "Sampler", "Lfo", "MetaModule", "MetaModule"]
    # every attachable type can be an end of a link (default-constructed: players without data, empty samplers ...)
    return common + sorted(t for t in specmodel.load() if t != "Output")


LINK_TYPES = _link_types()


def pairs_of_op(op):
    """Model semantics: ordered list of (from, to, disconnect) the op requests."""
    k = op[0]
    if k == "rshift":
        return [(op[1], op[2], False)]
    if k == "lshift":
        return [(op[2], op[1], False)]
    if k == "rshift_dis":
        return [(op[1], op[2], True)]
    if k == "lshift_dis":
        return [(op[2], op[1], True)]
    if k == "rshift_list":
        return [(op[1], b, False) for b in op[2]]
    if k == "lshift_list":
        return [(b, op[1], False) for b in op[2]]
    if k == "chain_r":
        return [(op[1], b, False) for b in op[2]] + [(b, op[3], False) for b in op[2]]
    if k == "chain_l":
        return [(b, op[1], False) for b in op[2]] + [(op[3], b, False) for b in op[2]]
    if k == "mlist_r_dis":
        return [(a, op[2], True) for a in op[1]]
    if k == "mlist_r_list":
        return [(a, b, False) for a in op[1] for b in op[2]]
    if k == "mlist_l_list":
        return [(b, a, False) for b in op[2] for a in op[1]]
    if k == "chain_l_list":
        return [(b, op[1], False) for b in op[2]] + [(d, b, False) for d in op[3] for b in op[2]]
    if k == "chain_r_list":
        return [(op[1], b, False) for b in op[2]] + [(b, d, False) for b in op[2] for d in op[3]]
    if k == "connect":
        return [(f, t, bool(fn or tn)) for f, fn in op[1] for t, tn in op[2]]
    if k == "connect_single":
        return [(op[1][0], op[2][0], bool(op[1][1] or op[2][1]))]
    if k == "xsame":
        return [(op[1], op[2], False)]
    if k == "fanout":
        return [(op[1], b, False) for b in range(op[2], op[3])]
    if k == "reuse":
        # one operand list object used for several requests in a row
        if op[1] in ("rshift", "connect_to"):
            return [(a, b, bool(dis)) for a in op[2] for b, dis in op[3]]
        return [(b, a, bool(dis)) for a in op[2] for b, dis in op[3]]
    return []


def model_apply(E, op):
    for f, t, dis in pairs_of_op(op):
        if dis:
            E.discard((f, t))
        else:
            E.add((f, t))


class World:
    """The real library side."""

    def __init__(self, n_initial=0, types=None, base=0, version=None):
        from rv.api import Project

        self.project = Project()
        if version:
            self.project.sunvox_version = tuple(version)  # the file version the project will be written as
        self.foreign = Project()
        self._mk(self.foreign, "Amplifier")
        self._mk(self.foreign, "Amplifier")
        for _ in range(base):
            self._mk(self.project, "Amplifier")
        for i in range(n_initial):
            self._mk(self.project, (types or ["Amplifier"])[i % len(types or ["Amplifier"])])

    @staticmethod
    def _mk(project, tname):
        import rv.modules as m
        from vlib import specmodel

        cls = m.MODULE_CLASSES[specmodel.load()[tname].mtype]
        return project.new_module(cls)

    def mod(self, i):
        return self.project.modules[i]

    def wrap(self, pair):
        i, neg = pair
        return ~self.mod(i) if neg else self.mod(i)

    def apply(self, op):
        """Execute one op.  Returns the exception raised by a cross-project op (or None)."""
        from rv.api import read_sunvox_file
        from rv.modules.module import ModuleList

        k = op[0]
        p = self.project
        M = self.mod
        if k == "new":
            self._mk(p, op[1])
        elif k == "rshift":
            M(op[1]) >> M(op[2])
        elif k == "lshift":
            M(op[1]) << M(op[2])
        elif k == "rshift_dis":
            M(op[1]) >> ~M(op[2])
        elif k == "lshift_dis":
            M(op[1]) << ~M(op[2])
        elif k == "rshift_list":
            r = M(op[1]) >> [M(b) for b in op[2]]
            if not isinstance(r, ModuleList):
                raise PropertyViolation("C07.operator.returns_modulelist", ">> with a list returned %r" % type(r).__name__)
        elif k == "lshift_list":
            M(op[1]) << [M(b) for b in op[2]]
        elif k == "chain_r":
            M(op[1]) >> [M(b) for b in op[2]] >> M(op[3])
        elif k == "chain_l":
            M(op[1]) << [M(b) for b in op[2]] << M(op[3])
        elif k == "mlist_r_dis":
            ModuleList(p, [M(a) for a in op[1]]) >> ~M(op[2])
        elif k == "mlist_r_list":
            ModuleList(p, [M(a) for a in op[1]]) >> [M(b) for b in op[2]]
        elif k == "mlist_l_list":
            ModuleList(p, [M(a) for a in op[1]]) << [M(b) for b in op[2]]
        elif k == "chain_l_list":
            M(op[1]) << [M(b) for b in op[2]] << [M(d) for d in op[3]]
        elif k == "chain_r_list":
            M(op[1]) >> [M(b) for b in op[2]] >> [M(d) for d in op[3]]
        elif k == "connect":
            p.connect([self.wrap(x) for x in op[1]], [self.wrap(x) for x in op[2]])
        elif k == "connect_single":
            p.connect(self.wrap(op[1]), self.wrap(op[2]))
        elif k == "fanout":
            # one module feeds very many others (more out-links than fit a byte)
            M(op[1]) >> [M(b) for b in range(op[2], op[3])]
        elif k == "reuse":
            items = [self.wrap(x) for x in op[3]]
            before = list(items)
            for a in op[2]:
                if op[1] == "rshift":
                    M(a) >> items
                elif op[1] == "lshift":
                    M(a) << items
                elif op[1] == "connect_to":
                    p.connect(M(a), items)
                else:
                    p.connect(items, M(a))
                if len(items) != len(before) or any(x is not y for x, y in zip(items, before)):
                    raise PropertyViolation("C07.operand_list_modified", "the list passed as an operand was changed by the request (%r -> %r)" % ([type(x).__name__ for x in before], [type(x).__name__ for x in items]))
        elif k == "xlink":
            F = self.foreign.modules
            a, b = F[op[1] % len(F)], F[op[2] % len(F)]
            if op[3]:
                a >> ~b
            else:
                a >> b
        elif k == "xmix":
            # ["xmix", spelling, [a, dis_a], [[b, dis_b], ...], f, pos]: one request whose list operand
            # holds modules of this project and, at position pos, a module of the other project
            f = self.foreign.modules[op[4]]
            a = self.wrap(op[2])
            items = [self.wrap(x) for x in op[3]]
            items.insert(min(op[5], len(items)), f)
            try:
                if op[1] == "connect_to":
                    p.connect(a, items)
                elif op[1] == "connect_from":
                    p.connect(items, a)
                elif op[1] == "rshift":
                    M(op[2][0]) >> items
                elif op[1] == "mlist_rshift":
                    # a ModuleList of this project that has come to hold a module of the other one (a chain result that was
                    # appended to, or the result of `x >> [] >> [foreign, ...]`)
                    ModuleList(p, items) >> M(op[2][0])
                elif op[1] == "mlist_lshift":
                    ModuleList(p, items) << M(op[2][0])
                elif op[1] == "chain_empty":
                    M(op[2][0]) >> [] >> items >> M(op[2][0])
                else:
                    M(op[2][0]) << items
            except Exception as e:  # noqa: BLE001
                return e
            return False
        elif k == "xsame":
            # the other project is made to hold the same link (same positions) as this one, then a single-module
            # request across the two projects is made: it must be refused like any other
            F = self.foreign.modules
            while len(F) <= max(op[1], op[2]):
                self._mk(self.foreign, "Amplifier")
            a, b = op[1], op[2]
            M(a) >> M(b)
            F[a] >> F[b]
            try:
                if op[3] == 0:
                    M(a) >> F[b]
                elif op[3] == 1:
                    F[b] << M(a)
                elif op[3] == 2:
                    F[a] >> M(b)
                else:
                    M(b) << F[a]
            except Exception as e:  # noqa: BLE001
                return e
            return False
        elif k == "x":
            f = self.foreign.modules[op[3]]
            a = M(op[2])
            sp = op[1]
            try:
                if sp == "rshift":
                    a >> f
                elif sp == "lshift":
                    a << f
                elif sp == "connect_to":
                    p.connect(a, f)
                elif sp == "connect_from":
                    p.connect(f, a)
                elif sp == "connect_list":
                    p.connect([a], [f])
                elif sp == "dis":
                    p.connect(a, ~f)
            except Exception as e:  # noqa: BLE001
                return e
            return False
        elif k == "save_load":
            self.project = read_sunvox_file(BytesIO(p.read()))
        else:
            raise AssertionError(op)
        return None


def tables(project):
    """Plain copy of the link tables: list (None for empty slots) of 4 lists."""
    out = []
    for m in project.modules:
        if m is None:
            out.append(None)
        else:
            out.append([list(m.in_links), list(m.in_link_slots), list(m.out_links), list(m.out_link_slots)])
    return out


def strip(lst):
    lst = list(lst)
    while lst and lst[-1] == -1:
        lst.pop()
    return lst


def stripped_tables(project):
    out = []
    for t in tables(project):
        if t is None:
            out.append(None)
            continue
        il, ils, ol, ols = t
        # strip trailing freed slots pairwise
        while il and il[-1] == -1 and (not ils or ils[-1] == -1 or len(ils) < len(il)):
            il.pop()
            if len(ils) > len(il):
                ils.pop()
        while ol and ol[-1] == -1 and (not ols or ols[-1] == -1 or len(ols) < len(ol)):
            ol.pop()
            if len(ols) > len(ol):
                ols.pop()
        out.append([il, strip(ils) if len(ils) > len(il) else ils, ol, strip(ols) if len(ols) > len(ol) else ols])
    return out


def check_consistency(project, E=None, prop="C07", allow_short_slots=False):
    """Invariants (i)-(iii) of DESIGN §3 C07.  Raises PropertyViolation."""
    mods = project.modules
    in_pairs = []
    out_pairs = []
    for m in mods:
        if m is None:
            continue
        il, ils, ol, ols = m.in_links, m.in_link_slots, m.out_links, m.out_link_slots
        if len(il) != len(ils):
            raise PropertyViolation(prop + ".tables.length", "module %d: in_links %r vs in_link_slots %r" % (m.index, il, ils))
        if len(ol) != len(ols):
            raise PropertyViolation(prop + ".tables.length", "module %d: out_links %r vs out_link_slots %r" % (m.index, ol, ols))
        for i, s in enumerate(il):
            k = ils[i]
            if s == -1:
                if k != -1:
                    raise PropertyViolation(prop + ".tables.freed_slot", "module %d in slot %d: link -1 but slot %d" % (m.index, i, k))
                continue
            if not (0 <= s < len(mods)) or mods[s] is None:
                raise PropertyViolation(prop + ".tables.dangling", "module %d in slot %d names module %r which does not exist" % (m.index, i, s))
            S = mods[s]
            if not (0 <= k < len(S.out_links)) or k >= len(S.out_link_slots) or S.out_links[k] != m.index or S.out_link_slots[k] != i:
                raise PropertyViolation(
                    prop + ".tables.mutual",
                    "module %d in slot %d says source %d slot %d, but source has out_links=%r out_link_slots=%r" % (m.index, i, s, k, S.out_links, S.out_link_slots),
                )
            in_pairs.append((s, m.index))
        for i, d in enumerate(ol):
            k = ols[i]
            if d == -1:
                if k != -1:
                    raise PropertyViolation(prop + ".tables.freed_slot", "module %d out slot %d: link -1 but slot %d" % (m.index, i, k))
                continue
            if not (0 <= d < len(mods)) or mods[d] is None:
                raise PropertyViolation(prop + ".tables.dangling", "module %d out slot %d names module %r which does not exist" % (m.index, i, d))
            D = mods[d]
            if not (0 <= k < len(D.in_links)) or k >= len(D.in_link_slots) or D.in_links[k] != m.index or D.in_link_slots[k] != i:
                raise PropertyViolation(
                    prop + ".tables.mutual",
                    "module %d out slot %d says destination %d slot %d, but destination has in_links=%r in_link_slots=%r" % (m.index, i, d, k, D.in_links, D.in_link_slots),
                )
            out_pairs.append((m.index, d))
    if len(set(in_pairs)) != len(in_pairs) or len(set(out_pairs)) != len(out_pairs):
        raise PropertyViolation(prop + ".tables.duplicate", "a pair occurs twice: in %r out %r" % (sorted(in_pairs), sorted(out_pairs)))
    if set(in_pairs) != set(out_pairs):
        raise PropertyViolation(prop + ".tables.in_vs_out", "pairs from in-tables %r != pairs from out-tables %r" % (sorted(in_pairs), sorted(out_pairs)))
    if E is not None and set(in_pairs) != set(E):
        raise PropertyViolation(
            prop + ".edges",
            "connections are %r, the operation sequence asks for %r (missing %r, extra %r)"
            % (sorted(in_pairs), sorted(E), sorted(set(E) - set(in_pairs)), sorted(set(in_pairs) - set(E))),
        )
    return set(in_pairs)


def edges_of(project):
    out = set()
    for m in project.modules:
        if m is None:
            continue
        for s in m.in_links:
            if s != -1:
                out.add((s, m.index))
    return out
