"""Independent IFF chunk-list parse/build (shares no code with rv.lib.iff)."""

from __future__ import annotations

import struct


class ChunkFormatError(Exception):
    pass


def parse(data, strict=True):
    """bytes -> list of (id:bytes4, payload:bytes).  strict: the stream must tile exactly."""
    out = []
    pos = 0
    n = len(data)
    while pos < n:
        if n - pos < 8:
            if strict:
                raise ChunkFormatError("trailing %d bytes at %d" % (n - pos, pos))
            break
        cid = bytes(data[pos : pos + 4])
        (ln,) = struct.unpack_from("<I", data, pos + 4)
        if pos + 8 + ln > n:
            if strict:
                raise ChunkFormatError("chunk %r at %d declares %d bytes, %d left" % (cid, pos, ln, n - pos - 8))
            out.append((cid, bytes(data[pos + 8 :])))
            break
        out.append((cid, bytes(data[pos + 8 : pos + 8 + ln])))
        pos += 8 + ln
    return out


def build(chunks):
    parts = []
    for cid, payload in chunks:
        cid = bytes(cid)
        assert len(cid) == 4, cid
        parts.append(cid)
        parts.append(struct.pack("<I", len(payload)))
        parts.append(bytes(payload))
    return b"".join(parts)


def module_sections(chunks):
    """Split a top-level chunk list into header part, pattern sections, module sections.

    Returns (head, patterns, modules, tail) where patterns/modules are lists of chunk
    lists each ending with PEND/SEND.  Works for .sunvox and .sunsynth streams."""
    head, patterns, modules = [], [], []
    cur = None
    mode = "head"
    i = 0
    for cid, payload in chunks:
        if mode == "head":
            if cid in (b"PDTA", b"PPAR", b"PEND"):
                mode = "pat"
                cur = []
            elif cid in (b"SFFF", b"SEND"):
                mode = "mod"
                cur = []
            else:
                head.append((cid, payload))
                continue
        if mode == "pat":
            if cid in (b"SFFF", b"SEND") and not cur:
                mode = "mod"
            else:
                cur.append((cid, payload))
                if cid == b"PEND":
                    patterns.append(cur)
                    cur = []
                continue
        if mode == "mod":
            cur.append((cid, payload))
            if cid == b"SEND":
                modules.append(cur)
                cur = []
    tail = cur or []
    return head, patterns, modules, tail


def module_chunks_by_chnm(section):
    """Within one module section: {chnm: {"CHDT": bytes, "CHFF": int|None, "CHFR": int|None}} in order."""
    out = {}
    cur = None
    for cid, payload in section:
        if cid == b"CHNM":
            (num,) = struct.unpack("<I", payload)
            cur = out.setdefault(num, {"CHDT": None, "CHFF": None, "CHFR": None, "count": 0})
            cur["count"] += 1
        elif cid == b"CHDT" and cur is not None:
            cur["CHDT"] = payload
        elif cid == b"CHFF" and cur is not None:
            (cur["CHFF"],) = struct.unpack("<I", payload)
        elif cid == b"CHFR" and cur is not None:
            (cur["CHFR"],) = struct.unpack("<I", payload)
    return out
