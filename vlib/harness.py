"""Shared runner machinery: shards, seeds, Hypothesis wrappers, evidence, exit codes.

A check module (checks/cXX.py) exposes

    PROPERTY_ID, LEVEL ("exploration" | "fault_enumeration"), RULE (str), ASSUMPTIONS (list)
    def plan(tier) -> list[dict]           # shard descriptors (JSON-able); one worker call each
    def run_shard(ctx, desc) -> None       # does the work, reports through ctx
    def replay(ctx, doc) -> None           # re-executes one saved case without Hypothesis

Everything a shard learns goes through the Ctx object, which is returned to the
parent as a plain dict and merged there.
"""

from __future__ import annotations

import hashlib
import json
import os
import sys
import time
import traceback
from collections import Counter

VERIF = os.path.dirname(os.path.dirname(os.path.abspath(__file__)))
REPO = os.environ.get("RV_REPO", "/repo")
RV_SRC = os.environ.get("RV_SRC") or os.path.join(REPO, "src", "python")

MAX_SAMPLES = 10


class PropertyViolation(Exception):
    """Raised by an oracle.  sub_oracle is a stable bucket name, key identifies the
    failing input class (used for known-finding matching), detail is free text."""

    def __init__(self, sub_oracle, detail="", key=None):
        super().__init__(sub_oracle, detail)
        self.sub_oracle = sub_oracle
        self.detail = detail
        self.key = key or sub_oracle


class HarnessError(Exception):
    pass


def canon(obj):
    return json.dumps(obj, sort_keys=True, separators=(",", ":"), default=_json_default)


def _json_default(o):
    if isinstance(o, (bytes, bytearray)):
        return {"__bytes__": bytes(o).hex()}
    if isinstance(o, (set, frozenset)):
        return sorted(o)
    if isinstance(o, tuple):
        return list(o)
    return repr(o)


def jsonable(obj):
    return json.loads(canon(obj))


def digest(obj):
    return hashlib.sha1(canon(obj).encode()).hexdigest()[:16]


def derive_seed(base, *parts):
    h = hashlib.sha256(("%d|" % base + "|".join(str(p) for p in parts)).encode()).digest()
    return int.from_bytes(h[:8], "little")


def lib_frame(exc):
    """Return 'file:func' of the innermost traceback frame inside the rv package, or None."""
    tb = exc.__traceback__
    found = None
    while tb is not None:
        fn = tb.tb_frame.f_code.co_filename
        if os.sep + "rv" + os.sep in fn and not fn.startswith(VERIF):
            found = "%s:%s" % (
                fn.split(os.sep + "rv" + os.sep, 1)[1],
                tb.tb_frame.f_code.co_name,
            )
        tb = tb.tb_next
    return found


def innermost_is_lib(exc):
    """True when the innermost *Python* frame of the exception lies in the rv package
    (or in the stdlib/third-party code called from it), false if it lies in /verif."""
    tb = exc.__traceback__
    last_verif = None
    last_lib = None
    i = 0
    while tb is not None:
        fn = tb.tb_frame.f_code.co_filename
        if fn.startswith(VERIF):
            last_verif = i
        elif os.sep + "rv" + os.sep in fn:
            last_lib = i
        i += 1
        tb = tb.tb_next
    return last_lib is not None and (last_verif is None or last_lib > last_verif)


def as_violation(exc, prop, what):
    """Convert an exception escaping the library into a PropertyViolation with a stable
    bucket name; re-raise harness errors untouched."""
    if isinstance(exc, PropertyViolation):
        return exc
    if innermost_is_lib(exc):
        where = lib_frame(exc) or "?"
        so = "%s.exception.%s.%s@%s" % (prop, what, type(exc).__name__, where)
        v = PropertyViolation(so, "%s: %s" % (type(exc).__name__, exc))
        v.__cause__ = exc
        return v
    return None


class Ctx:
    def __init__(self, prop, tier, seed, shard, nshards, known_keys):
        self.prop = prop
        self.tier = tier
        self.seed = seed
        self.shard = shard
        self.nshards = nshards
        self.known_keys = set(known_keys)
        self.evaluations = 0
        self.nontrivial = set()
        self.labels = Counter()
        self.samples = []
        self.failures = []  # dicts: sub_oracle,key,detail,recipe
        self.known_hits = Counter()
        self.known_what = {}
        self.excluded = 0
        self.extra = {}
        self.inconclusive = []
        self.noise = False
        self._toggle = False
        self._sample_every = 1
        self._sample_seen = 0

    # --- reporting -------------------------------------------------------------
    def case(self, n=1):
        self.evaluations += n
        # the logging configuration of the process alternates while a shard runs (see configure_process):
        # blocks of cases with the rv loggers at DEBUG and a formatting handler, blocks with logging off
        self._ticks = getattr(self, "_ticks", 0) + 1
        if self._toggle and self._ticks % 6 == 0:
            set_process_mode("debug" if PROCESS_MODE["mode"] == "off" else "off")
            self.extra.setdefault("process_config", {})
            self.extra["process_config"]["switches between DEBUG logging and logging off"] = self.extra["process_config"].get("switches between DEBUG logging and logging off", 0) + 1

    def label(self, *names):
        for n in names:
            self.labels[n] += 1

    def mark_nontrivial(self, obj):
        self.nontrivial.add(obj if isinstance(obj, str) and len(obj) == 16 else digest(obj))

    def mark_nontrivial_count(self, tag, n):
        """For complete enumerations: n distinct non-trivial points identified by
        construction (tag, i).  Stored compactly."""
        self.extra.setdefault("enumerated_nontrivial", Counter())
        self.extra["enumerated_nontrivial"][tag] += n

    def sample(self, obj):
        # reservoir-ish: keep first few and then sparse later ones
        self._sample_seen += 1
        if len(self.samples) < MAX_SAMPLES:
            self.samples.append(jsonable(obj))
        elif self._sample_seen % 97 == 0:
            self.samples[self._sample_seen % MAX_SAMPLES] = jsonable(obj)

    def is_known(self, key):
        return key in self.known_keys

    def known_hit(self, key, what=""):
        self.known_hits[key] += 1
        if what and key not in self.known_what:
            self.known_what[key] = what

    def fail(self, violation, recipe):
        """Record a violation (unless its key is a listed open finding)."""
        if violation.key in self.known_keys:
            self.known_hit(violation.key, violation.detail)
            return False
        self.failures.append(
            {
                "sub_oracle": violation.sub_oracle,
                "key": violation.key,
                "detail": str(violation.detail)[:2000],
                "recipe": jsonable(recipe),
                "process_config": PROCESS_MODE["mode"] + ("+subclasses" if PROCESS_MODE.get("subclasses") else ""),
            }
        )
        return True

    def check(self, cond, sub_oracle, detail="", key=None, recipe=None):
        """Non-raising oracle for enumerations: records and continues."""
        if cond:
            return True
        v = PropertyViolation(sub_oracle, detail, key)
        # keep at most a handful per bucket
        n = sum(1 for f in self.failures if f["sub_oracle"] == sub_oracle)
        same_key = any(f["key"] == v.key for f in self.failures)
        if v.key in self.known_keys:
            self.known_hit(v.key, detail)
        elif n < 12 and not same_key:
            self.fail(v, recipe if recipe is not None else {"detail": detail})
        else:
            self.extra.setdefault("suppressed_repeats", Counter())[sub_oracle] += 1
        return False

    def dump(self):
        ex = {}
        for k, v in self.extra.items():
            ex[k] = dict(v) if isinstance(v, Counter) else v
        return {
            "evaluations": self.evaluations,
            "nontrivial": sorted(self.nontrivial),
            "labels": dict(self.labels),
            "samples": self.samples,
            "failures": self.failures,
            "known_hits": dict(self.known_hits),
            "known_what": self.known_what,
            "excluded": self.excluded,
            "extra": ex,
            "inconclusive": self.inconclusive,
        }


# --------------------------------------------------------------------------------------
# Hypothesis wrappers


def _hyp():
    import hypothesis
    from hypothesis import HealthCheck, Phase, settings

    return hypothesis, HealthCheck, Phase, settings


def hsettings(max_examples, stateful_step_count=None, shrink=True):
    hypothesis, HealthCheck, Phase, settings = _hyp()
    phases = [Phase.explicit, Phase.generate, Phase.target]
    if shrink:
        phases.append(Phase.shrink)
    kw = dict(
        max_examples=max_examples,
        database=None,
        deadline=None,
        derandomize=False,
        report_multiple_bugs=False,
        print_blob=False,
        phases=phases,
        suppress_health_check=[
            HealthCheck.too_slow,
            HealthCheck.data_too_large,
            HealthCheck.large_base_example,
            HealthCheck.filter_too_much,
        ],
    )
    if stateful_step_count is not None:
        kw["stateful_step_count"] = stateful_step_count
    return settings(**kw)


class _Recorder:
    def __init__(self, budget_s):
        self.budget_s = budget_s
        self.first_fail_t = None
        self.last = None  # (violation, recipe)
        self.n_fail = 0

    def expired(self):
        return (
            self.first_fail_t is not None
            and time.monotonic() - self.first_fail_t > self.budget_s
        )


def run_property(ctx, strategy, body, max_examples, tag="", shrink_budget_s=None, bucket=None):
    """Drive body(case) over strategy with a pinned seed.

    body raises PropertyViolation (or lets a library exception escape) on failure.
    The minimal failing case (what the shrinker last saw fail) is recorded in ctx.
    Known-finding keys never reach Hypothesis as failures: they are counted and the
    case is treated as passing, so the search continues behind them.
    Returns True when no (unknown) failure was seen.
    """
    hypothesis, HealthCheck, Phase, settings = _hyp()
    from hypothesis import given
    from hypothesis import seed as hseed

    if shrink_budget_s is None:
        shrink_budget_s = 20.0 if ctx.tier == "quick" else 120.0
    rec = _Recorder(shrink_budget_s)
    seed = derive_seed(ctx.seed, ctx.prop, tag, ctx.shard)

    def wrapped(case):
        if rec.expired():
            return
        if ctx.noise:
            from vlib import noise

            noise.step()
        try:
            body(case)
        except PropertyViolation as v:
            if v.key in ctx.known_keys:
                ctx.known_hit(v.key, v.detail)
                return
            _rec(v, case)
            raise
        except Exception as e:  # noqa: BLE001
            v = as_violation(e, ctx.prop, bucket or tag or "case")
            if v is None:
                raise
            if v.key in ctx.known_keys:
                ctx.known_hit(v.key, v.detail)
                return
            _rec(v, case)
            raise v from e

    def _rec(v, case):
        if rec.first_fail_t is None:
            rec.first_fail_t = time.monotonic()
        rec.n_fail += 1
        rec.last = (v, case)

    test = hseed(seed)(hsettings(max_examples)(given(strategy)(wrapped)))
    try:
        test()
    except PropertyViolation:
        pass
    except Exception as e:  # noqa: BLE001
        if rec.last is None:
            name = type(e).__name__
            if name in ("FailedHealthCheck", "Unsatisfiable", "InvalidArgument"):
                raise HarnessError("hypothesis: %s: %s" % (name, e)) from e
            raise
        # Flaky etc. after the shrink budget ran out: keep what we recorded.
    if rec.last is not None:
        v, case = rec.last
        ctx.fail(v, {"tag": tag, "case": case})
        return False
    return True


def run_machine(ctx, machine_cls, max_examples, steps, tag="", shrink_budget_s=None):
    """Run a RuleBasedStateMachine subclass.  The machine must keep self.trace (a list
    of JSON-able steps); class attribute `last_trace` is updated by the harness."""
    hypothesis, HealthCheck, Phase, settings = _hyp()
    from hypothesis import seed as hseed
    from hypothesis.stateful import run_state_machine_as_test

    if shrink_budget_s is None:
        shrink_budget_s = 20.0 if ctx.tier == "quick" else 120.0
    seed = derive_seed(ctx.seed, ctx.prop, tag, ctx.shard)
    rec = _Recorder(shrink_budget_s)
    machine_cls._vp_ctx = ctx
    machine_cls._vp_rec = rec
    try:
        run_state_machine_as_test(
            hseed(seed)(machine_cls),
            settings=hsettings(max_examples, stateful_step_count=steps),
        )
    except PropertyViolation:
        pass
    except Exception as e:  # noqa: BLE001
        if rec.last is None:
            name = type(e).__name__
            if name in ("FailedHealthCheck", "Unsatisfiable", "InvalidArgument"):
                raise HarnessError("hypothesis: %s: %s" % (name, e)) from e
            v = as_violation(e, ctx.prop, tag or "machine")
            if v is None:
                raise
            rec.last = (v, getattr(machine_cls, "last_trace", None))
    if rec.last is not None:
        v, trace = rec.last
        ctx.fail(v, {"tag": tag, "trace": trace})
        return False
    return True


def machine_violation(machine, v):
    """Called by state machines when an oracle fails: records and raises, or swallows
    known findings (returns False so the machine can stop checking this step)."""
    ctx = machine._vp_ctx
    rec = machine._vp_rec
    if v.key in ctx.known_keys:
        ctx.known_hit(v.key, v.detail)
        return False
    if rec.first_fail_t is None:
        rec.first_fail_t = time.monotonic()
    rec.last = (v, jsonable(list(machine.trace)))
    type(machine).last_trace = rec.last[1]
    raise v


# --------------------------------------------------------------------------------------
# Parent side


PROCESS_MODE = {"mode": "off"}


def set_process_mode(mode):
    """"debug": rv loggers at DEBUG with a handler that formats every record; "off": logging disabled."""
    import logging

    import warnings

    lg = logging.getLogger("rv")
    warnings.resetwarnings()
    warnings.simplefilter("ignore")
    if mode == "debug":
        # ... and Python warnings issued from inside the library are errors (as under -W error), other warnings stay silent
        warnings.filterwarnings("error", module=r"rv(\.|$)")
        try:
            # ... and so are warnings of the library's own categories, whoever they are attributed to (stacklevel)
            import rv.errors as _rve

            warnings.filterwarnings("error", category=_rve.RadiantVoicesWarning)
        except Exception:  # noqa: BLE001
            pass
        class H(logging.Handler):
            def emit(self, record):
                try:
                    record.getMessage()
                except Exception:  # noqa: BLE001 - a log line that cannot be formatted is not this harness's subject
                    pass

        logging.disable(logging.NOTSET)
        lg.handlers[:] = [H(level=logging.DEBUG)]
        lg.setLevel(logging.DEBUG)
        lg.propagate = False
    else:
        logging.disable(logging.CRITICAL)
    PROCESS_MODE["mode"] = mode


def define_plain_subclasses():
    """What a program with its own module classes does when it is imported: here a plain subclass (same class
    name, nothing overridden) of every stock module class except Output, kept in an importable module
    "user_program".  Deriving a class re-registers its type name, so from then on files yield instances of the
    derived classes.  Cannot be undone within a process (workers are single-task processes)."""
    if PROCESS_MODE.get("subclasses"):
        return
    import sys
    import types

    from rv.modules import MODULE_CLASSES

    up = types.ModuleType("user_program")
    sys.modules["user_program"] = up
    for mtype, cls in sorted(MODULE_CLASSES.items()):
        if cls.__name__ in ("Output", "Module"):
            continue
        sub = type(cls.__name__, (cls,), {"__module__": "user_program", "__qualname__": cls.__name__})
        setattr(up, cls.__name__, sub)
    PROCESS_MODE["subclasses"] = True


def configure_process(shard, subclasses_ok=True):
    """How the process around the library is configured is not the library's business: every third
    shard runs with the "rv" loggers at DEBUG and a handler that formats every record (what an
    application does while debugging), the others with logging switched off.  Returns a description."""
    import logging

    sub = ""
    if subclasses_ok and (shard % 8 == 5 or os.environ.get("VERIF_FORCE_SUBCLASSES")):
        define_plain_subclasses()
        sub = "; the program has derived a plain subclass from every stock module class"
    if shard % 3 == 1:
        set_process_mode("debug")
        return "starts with the rv loggers at DEBUG and a formatting handler" + sub
    set_process_mode("off")
    return "starts with logging disabled" + sub


def _worker(args):
    (modname, prop, tier, seed, shard, nshards, known_keys, desc) = args
    import importlib

    os.environ["PYTHONHASHSEED"] = os.environ.get("PYTHONHASHSEED", "0")
    t0 = time.monotonic()
    ctx = Ctx(prop, tier, seed, shard, nshards, known_keys)
    try:
        mod = importlib.import_module(modname)
        reset_globals()
        owner = importlib.import_module("checks." + prop.lower())
        # a check that compares the registered classes themselves with the specification opts out of "the
        # program has derived its own classes" (USER_SUBCLASSES = False)
        ctx.extra["process_config"] = {configure_process(shard, getattr(owner, "USER_SUBCLASSES", True)): 1}
        ctx._toggle = True
        if getattr(owner, "NOISE", True):
            # observations a check wants from a process in which nothing has happened yet
            hook = getattr(owner, "before_noise", None)
            if hook:
                hook()
            from vlib import noise

            ctx.extra["noise_ops_at_start"] = noise.all_once()
            ctx.noise = True
        mod.run_shard(ctx, desc)
        out = ctx.dump()
        out["error"] = None
    except Exception as e:  # noqa: BLE001
        v = as_violation(e, prop, "shard") if not isinstance(e, HarnessError) else None
        if v is not None and not isinstance(e, PropertyViolation):
            # the library raised on an input the shard feeds it outside a generated case
            ctx.fail(v, {"shard": desc, "traceback": traceback.format_exc()[-1500:]})
            out = ctx.dump()
            out["error"] = None
        elif isinstance(e, PropertyViolation):
            ctx.fail(e, {"shard": desc})
            out = ctx.dump()
            out["error"] = None
        else:
            out = ctx.dump()
            out["error"] = "%s: %s\n%s" % (type(e).__name__, e, traceback.format_exc())
    out["wall_s"] = time.monotonic() - t0
    out["desc"] = desc
    return out


def reset_globals():
    import rv.errors

    rv.errors.RAISE_CONTROLLER_VALUE_ERRORS = True


def load_known(prop):
    path = os.path.join(VERIF, "known_findings.json")
    if not os.path.exists(path):
        return []
    with open(path) as f:
        doc = json.load(f)
    return [e for e in doc.get("findings", []) if e.get("property") == prop]


def write_evidence(prop, doc):
    d = os.path.join(VERIF, "evidence")
    os.makedirs(d, exist_ok=True)
    path = os.path.join(d, prop + ".json")
    tmp = path + ".tmp"
    with open(tmp, "w") as f:
        json.dump(doc, f, indent=1, sort_keys=True)
        f.write("\n")
    os.replace(tmp, path)
    return path


def main(argv=None):
    import argparse
    import importlib
    import logging
    import multiprocessing

    ap = argparse.ArgumentParser()
    ap.add_argument("prop")
    ap.add_argument("--tier", default=os.environ.get("VERIF_TIER") or "quick")
    ap.add_argument("--replay", default=None)
    ap.add_argument("--jobs", type=int, default=int(os.environ.get("VERIF_JOBS", "16")))
    ap.add_argument("--no-evidence", action="store_true")
    args = ap.parse_args(argv)
    prop = args.prop.upper()
    tier = args.tier if args.tier in ("quick", "thorough") else "quick"
    try:
        seed = int(os.environ.get("VERIF_SEED", "1") or "1")
    except ValueError:
        seed = 1

    logging.disable(logging.CRITICAL)  # the library logs warnings in lenient mode
    import warnings

    warnings.simplefilter("ignore")

    t0 = time.monotonic()
    try:
        if RV_SRC not in sys.path:
            sys.path.insert(0, RV_SRC)
        if VERIF not in sys.path:
            sys.path.insert(0, VERIF)
        import rv

        if not os.path.abspath(rv.__file__).startswith(os.path.abspath(RV_SRC)):
            raise HarnessError("rv imported from %s, expected %s" % (rv.__file__, RV_SRC))
        import rv.api  # noqa: F401

        modname = "checks." + prop.lower()
        mod = importlib.import_module(modname)
    except Exception as e:  # noqa: BLE001
        # A tree whose package no longer imports is a harness error, not a verdict.
        print("HARNESS-ERROR: cannot import: %s: %s" % (type(e).__name__, e))
        traceback.print_exc()
        return 2

    known = load_known(prop)
    open_keys = [e["key"] for e in known if e.get("status") == "open"]

    # ---- single replay -------------------------------------------------------------
    if args.replay:
        with open(args.replay) as f:
            doc = json.load(f)
        ctx = Ctx(prop, tier, seed, 0, 1, [])
        try:
            reset_globals()
            pc = doc.get("process_config") or "off"
            if pc.endswith("+subclasses"):
                define_plain_subclasses()
                pc = pc[: -len("+subclasses")]
            set_process_mode(pc)
            mod.replay(ctx, doc)
        except PropertyViolation as v:
            ctx.fail(v, doc.get("recipe"))
        except Exception as e:  # noqa: BLE001
            v = as_violation(e, prop, "replay")
            if v is None:
                traceback.print_exc()
                return 2
            ctx.fail(v, doc.get("recipe"))
        if ctx.failures:
            for f_ in ctx.failures:
                print("VIOLATION property=%s replay=%s" % (prop, args.replay))
                print("  sub_oracle=%s detail=%s" % (f_["sub_oracle"], f_["detail"][:500]))
            return 1
        print("replay passed: %s" % args.replay)
        return 0

    # ---- plan + run shards ---------------------------------------------------------
    try:
        descs = mod.plan(tier)
    except Exception as e:  # noqa: BLE001
        print("HARNESS-ERROR: plan failed: %s" % e)
        traceback.print_exc()
        return 2
    # committed replays are run first, as their own shard
    rdir = os.path.join(VERIF, "replays", prop)
    replay_files = sorted(
        os.path.join(rdir, n) for n in (os.listdir(rdir) if os.path.isdir(rdir) else []) if n.endswith(".json")
    )
    if replay_files and hasattr(mod, "replay"):
        descs = [{"kind": "__replays__", "files": replay_files}] + list(descs)
    nshards = len(descs)
    jobs = [
        (modname if d.get("kind") != "__replays__" else "vlib.harness_replays", prop, tier, seed, i, nshards, open_keys, d)
        for i, d in enumerate(descs)
    ]
    nproc = max(1, min(args.jobs, nshards))
    if nproc == 1:
        results = [_worker(j) for j in jobs]
    else:
        mpctx = multiprocessing.get_context("fork")
        with mpctx.Pool(nproc, maxtasksperchild=1) as pool:
            results = pool.map(_worker, jobs, chunksize=1)

    # ---- merge ---------------------------------------------------------------------
    evaluations = 0
    nontrivial = set()
    labels = Counter()
    samples = []
    failures = []
    known_hits = Counter()
    known_what = {}
    extra = {}
    errors = []
    inconclusive = []
    excluded = 0
    enumerated_nontrivial = 0
    shard_walls = []
    for r in results:
        evaluations += r["evaluations"]
        nontrivial.update(r["nontrivial"])
        labels.update(r["labels"])
        failures.extend(r["failures"])
        known_hits.update(r["known_hits"])
        known_what.update(r["known_what"])
        excluded += r["excluded"]
        inconclusive.extend(r["inconclusive"])
        shard_walls.append(round(r["wall_s"], 2))
        for k, v in r["extra"].items():
            if k == "enumerated_nontrivial":
                enumerated_nontrivial += sum(v.values())
                tgt = extra.setdefault(k, Counter())
                tgt.update(v)
            elif isinstance(v, dict):
                tgt = extra.setdefault(k, Counter())
                tgt.update(v)
            elif isinstance(v, (int, float)):
                extra[k] = extra.get(k, 0) + v
            elif isinstance(v, list):
                extra.setdefault(k, []).extend(v[:20])
            else:
                extra[k] = v
        if r["error"]:
            errors.append((r["desc"], r["error"]))
    # round-robin samples across shards
    pools = [list(r["samples"]) for r in results if r["samples"]]
    while pools and len(samples) < MAX_SAMPLES:
        for p in list(pools):
            if p and len(samples) < MAX_SAMPLES:
                samples.append(p.pop(0))
            if not p:
                pools.remove(p)

    # bucket failures by sub_oracle (root-cause proxy)
    buckets = {}
    for f_ in failures:
        b = buckets.setdefault(f_["sub_oracle"], f_)
        if len(canon(f_["recipe"])) < len(canon(b["recipe"])):
            buckets[f_["sub_oracle"]] = f_

    wall = time.monotonic() - t0
    rule = getattr(mod, "RULE", "")
    coverage = {
        "evaluations": int(evaluations),
        "distinct_nontrivial": int(len(nontrivial) + enumerated_nontrivial),
        "rule": rule,
        "samples": samples,
        "labels": dict(sorted(labels.items())),
        "shards": nshards,
        "shard_wall_s": shard_walls,
        "known_finding_hits": dict(known_hits),
        "excluded_draws": excluded,
        "inconclusive": inconclusive[:20],
    }
    for k, v in extra.items():
        coverage[k] = dict(v) if isinstance(v, Counter) else v
    coverage["generator_gaps"] = [l for l in getattr(mod, "REQUIRED_LABELS", {}).get(tier, []) if labels.get(l, 0) == 0]
    exh = getattr(mod, "exhaustive", None)
    if callable(exh):
        coverage["exhaustive"] = bool(exh(tier))
    expl = getattr(mod, "EXPLANATION", None)
    if expl:
        coverage["explanation"] = expl
    ev = {
        "property_id": prop,
        "tier": tier,
        "seed": seed,
        "level": getattr(mod, "LEVEL", "exploration"),
        "coverage": coverage,
        "assumptions": list(getattr(mod, "ASSUMPTIONS", [])),
        "wall_s": round(wall, 2),
        "violations": len(buckets),
    }
    if not args.no_evidence:
        write_evidence(prop, ev)

    rc = 0
    if errors:
        for d, e in errors:
            print("HARNESS-ERROR: shard %s failed:\n%s" % (canon(d)[:200], e))
        rc = 2
    # generator health: the classes of cases a check expects to see.  Classes listed in HARD_LABELS are
    # produced deterministically (enumerations, fixed shards): their absence is a harness error.  The
    # others depend on random draws; a run that happens to miss one is reported (GENERATOR-GAP line,
    # coverage.generator_gaps in the evidence) but is not a failure of the tree under test.
    req = getattr(mod, "REQUIRED_LABELS", {}).get(tier, [])
    hard = set(getattr(mod, "HARD_LABELS", []))
    missing = [l for l in req if labels.get(l, 0) == 0]
    if missing and not buckets:
        fatal = [l for l in missing if l in hard]
        if fatal:
            print("HARNESS-ERROR: generator never produced classes: %s" % fatal)
            rc = 2
        soft = [l for l in missing if l not in hard]
        if soft:
            print("GENERATOR-GAP: this run (seed %d) drew no case of class(es): %s" % (seed, soft))
    for key, n in sorted(known_hits.items()):
        ent = next((e for e in known if e["key"] == key), {})
        print(
            "KNOWN-FINDING: property=%s %s (key=%s, hit %d times this run)"
            % (prop, ent.get("what") or known_what.get(key, ""), key, n)
        )
    if buckets:
        rdir_out = os.path.join(VERIF, "evidence", "replays")
        os.makedirs(rdir_out, exist_ok=True)
        for so, f_ in sorted(buckets.items()):
            path = os.path.join(rdir_out, "%s-%s.json" % (prop, digest([so, f_["recipe"]])))
            with open(path, "w") as fh:
                json.dump(
                    {
                        "property": prop,
                        "sub_oracle": so,
                        "key": f_["key"],
                        "detail": f_["detail"],
                        "recipe": f_["recipe"],
                        "process_config": f_.get("process_config", "off"),
                        "seed": seed,
                        "tier": tier,
                    },
                    fh,
                    indent=1,
                    sort_keys=True,
                )
            print("VIOLATION property=%s replay=%s" % (prop, path))
            print("  sub_oracle=%s" % so)
            print("  detail=%s" % f_["detail"][:600].replace("\n", " | "))
            keys = sorted({g["key"] for g in failures if g["sub_oracle"] == so})
            if len(keys) > 1 or keys[0] != so:
                print("  keys(%d)=%s" % (len(keys), ", ".join(keys[:8])))
        rc = 1
    print(
        "%s tier=%s seed=%d evaluations=%d distinct_nontrivial=%d violations=%d wall=%.1fs"
        % (prop, tier, seed, evaluations, coverage["distinct_nontrivial"], len(buckets), wall)
    )
    return rc
