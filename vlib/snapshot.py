"""Observable state of library objects as plain data, built from public attributes only.

Documented normalisations (applied to every snapshot, hence on both sides of a comparison):
  * module name -> longest prefix whose UTF-8 form fits 32 bytes; Output's name is the constant "Output"
  * midi_out_name "" == None; VorbisPlayer.data None == b""
  * tuples == lists; bool == 0/1 for boolean controllers/options
  * module flags are OR-ed with the type's default flags (the reader does that)
  * trailing empty module positions dropped; trailing freed (-1) link slots dropped
  * Sample.name right-stripped of NUL and cut to 22 bytes
"""

from __future__ import annotations

import enum

PROJECT_FIELDS = [
    "based_on_version",
    "flags",
    "receive_sync_midi",
    "receive_sync_other",
    "initial_bpm",
    "initial_tpl",
    "time_grid",
    "time_grid2",
    "global_volume",
    "name",
    "modules_scale",
    "modules_zoom",
    "modules_x_offset",
    "modules_y_offset",
    "modules_layer_mask",
    "modules_current_layer",
    "timeline_position",
    "restart_position",
    "selected_module",
    "selected_generator",
    "current_pattern",
    "current_track",
    "current_line",
]

PATTERN_FIELDS = ["name", "tracks", "lines", "y_size", "flags_PFLG", "icon", "fg_color", "bg_color", "flags_PFFF", "x", "y"]
CLONE_FIELDS = ["source", "flags_PFFF", "x", "y"]
SAMPLE_FIELDS = ["loop_start", "loop_len", "volume", "finetune", "format", "channels", "rate", "loop_type", "loop_sustain", "panning", "relative_note", "reserved2", "start_pos"]
ENVELOPE_FIELDS = ["enable", "sustain", "loop", "ctl_index", "gain_pct", "velocity", "sustain_point", "loop_start_point", "loop_end_point"]
SAMPLER_FIELDS = ["instrument_name", "version", "max_version", "volume_old", "ins_finetune", "ins_relative_note", "editor_cursor", "editor_selected_size", "unused1", "unused2", "unused3", "unused4", "unused5", "unused6"]
SAMPLER_UNATTACHED = ["vibrato_type", "vibrato_attack", "vibrato_depth", "vibrato_rate", "volume_fadeout"]


def plain(v):
    if isinstance(v, enum.Enum):
        return [type(v).__name__, v.value]
    if isinstance(v, bool):
        return int(v)
    if isinstance(v, (bytes, bytearray)):
        return {"__bytes__": bytes(v).hex()}
    if isinstance(v, (list, tuple)):
        return [plain(x) for x in v]
    if isinstance(v, float):
        return v
    return v


def trunc_name(s, limit=32):
    if s is None:
        return None
    b = s.encode("utf8")
    if len(b) <= limit:
        return s
    cut = b[:limit]
    while cut:
        try:
            return cut.decode("utf8")
        except UnicodeDecodeError:
            cut = cut[:-1]
    return ""


def strip_trailing(lst, val=-1):
    lst = list(lst)
    while lst and lst[-1] == val:
        lst.pop()
    return lst


def snap_links(mod):
    il, ils = list(mod.in_links), list(mod.in_link_slots)
    ol, ols = list(mod.out_links), list(mod.out_link_slots)
    while il and il[-1] == -1:
        il.pop()
    ils = ils[: len(il)] if len(ils) >= len(il) else ils
    while ol and ol[-1] == -1:
        ol.pop()
    ols = ols[: len(ol)] if len(ols) >= len(ol) else ols
    return {"in_links": il, "in_link_slots": ils, "out_links": ol, "out_link_slots": ols}


def snap_cmid(mod):
    out = {}
    for name, c in mod.controllers.items():
        if c.attached(mod):
            mm = mod.controller_midi_maps[name]
            out[name] = [mm.message_type.value, mm.channel, mm.slope.value, mm.message_parameter]
    return out


def snap_controllers(mod):
    out = {}
    meta = type(mod).__name__ == "MetaModule"
    for name, c in mod.controllers.items():
        if meta and name.startswith("user_defined_"):
            # user-visible values of user-defined controllers depend on when their value
            # types are re-derived from the mappings; their *stored* values are compared
            # instead (payload/stored_values)
            continue
        if c.attached(mod):
            out[name] = plain(getattr(mod, name))
    return out


def snap_options(mod):
    return {name: int(getattr(mod, name)) for name in mod.options}


def snap_envelope(e):
    d = {f: plain(getattr(e, f)) for f in ENVELOPE_FIELDS}
    d["points"] = [[x, y] for x, y in e.points]
    return d


def snap_sample(s):
    if s is None:
        return None
    d = {f: plain(getattr(s, f)) for f in SAMPLE_FIELDS}
    d["data"] = {"__bytes__": bytes(s.data).hex()}
    d["name"] = {"__bytes__": bytes(s.name).rstrip(b"\0")[:22].rstrip(b"\0").hex()}
    return d


def snap_payload(mod, depth=0):
    t = type(mod).__name__
    p = {}
    if t == "MultiSynth":
        p["nv_curve"] = list(mod.nv_curve.values)
        p["vv_curve"] = list(mod.vv_curve.values)
        p["np_curve"] = list(mod.np_curve.values)
    elif t == "WaveShaper":
        p["curve"] = list(mod.curve.values)
    elif t == "MultiCtl":
        p["mappings"] = [[x.min, x.max, x.controller, x.flags, x.future_use2, x.future_use3, x.future_use4, x.future_use5] for x in mod.mappings.values]
        p["curve"] = list(mod.curve.values)
    elif t == "SpectraVoice":
        p["harmonic_freqs"] = list(mod.harmonic_freqs.values)
        p["harmonic_volumes"] = list(mod.harmonic_volumes.values)
        p["harmonic_widths"] = list(mod.harmonic_widths.values)
        p["harmonic_types"] = [int(x) for x in mod.harmonic_types.values]
        p["harmonics"] = [[h.freq_hz, h.volume, h.width, int(h.type) if not isinstance(h.type, str) else h.type] for h in mod.harmonics]
    elif t == "Fmx":
        p["custom_waveform"] = [float(x) for x in mod.custom_waveform.values]
    elif t in ("Generator", "AnalogGenerator"):
        dw = mod.drawn_waveform
        p["drawn_waveform"] = {"samples": list(dw.samples), "format": plain(dw.format), "freq": dw.freq}
    elif t == "VorbisPlayer":
        p["data"] = {"__bytes__": bytes(mod.data or b"").hex()}
    elif t == "MetaModule":
        n = mod.user_defined_controllers
        p["project"] = snap_project(mod.project, depth + 1)
        p["mappings"] = [[x.module, x.controller] for x in mod.mappings.values]
        p["labels"] = [mod.user_defined[i].label for i in range(min(n, 96))]
        p["count"] = n
        p["attached"] = [i for i, c in enumerate(mod.user_defined) if c.attached(mod)]
        p["stored_values"] = [mod.get_raw("user_defined_%d" % (i + 1)) for i in range(min(n, 96))]
    elif t == "Sampler":
        p["samples"] = [snap_sample(s) for s in mod.samples]
        p["volume_envelope"] = snap_envelope(mod.volume_envelope)
        p["panning_envelope"] = snap_envelope(mod.panning_envelope)
        p["pitch_envelope"] = snap_envelope(mod.pitch_envelope)
        p["effect_control_envelopes"] = [snap_envelope(e) for e in mod.effect_control_envelopes]
        p["note_samples"] = [int(v) for v in mod.note_samples.values()]
        p["note_sample_keys"] = [int(k) for k in mod.note_samples.keys()]
        for f in SAMPLER_UNATTACHED:
            p[f] = plain(getattr(mod, f))
        for f in SAMPLER_FIELDS:
            v = getattr(mod, f)
            if f == "instrument_name":
                v = {"__bytes__": bytes(v).rstrip(b"\0")[:22].rstrip(b"\0").hex()}
            p[f] = plain(v)
        p["effect"] = None if not mod.effect else snap_synth(mod.effect, depth + 1)
    return p


def module_scale(mod):
    return mod.mod_scale if hasattr(mod, "mod_scale") else mod.scale


def snap_module(mod, in_project=True, depth=0, with_links=True):
    if mod is None:
        return None
    tname = type(mod).__name__
    d = {
        "class": tname,
        "mtype": mod.mtype,
        "name": "Output" if tname == "Output" else trunc_name(mod.name),
        "flags": (mod.flags | type(mod).default_flags) & 0xFFFFFFFF,
        "finetune": mod.mod_finetune,
        "relative_note": mod.mod_relative_note,
        "scale": module_scale(mod),
        "color": list(mod.color),
        "midi_in_always": int(bool(mod.midi_in_always)),
        "midi_in_channel": mod.midi_in_channel,
        "midi_out_name": mod.midi_out_name or None,
        "midi_out_channel": mod.midi_out_channel,
        "midi_out_bank": mod.midi_out_bank,
        "midi_out_program": mod.midi_out_program,
        "controllers": snap_controllers(mod),
        "options": snap_options(mod),
        "cmid": snap_cmid(mod),
        "payload": snap_payload(mod, depth),
    }
    if in_project:
        d["x"] = mod.x
        d["y"] = mod.y
        d["layer"] = mod.layer
        d["visualization"] = int(mod.visualization)
        if with_links:
            d["links"] = snap_links(mod)
    return d


def snap_synth(synth, depth=0):
    return {"kind": "synth", "module": snap_module(synth.module, in_project=False, depth=depth)}


def snap_note(n):
    return [int(n.note), n.vel, n.module, n.ctl, n.val]


def snap_pattern(p):
    if p is None:
        return None
    if type(p).__name__ == "PatternClone":
        d = {"kind": "clone"}
        for f in CLONE_FIELDS:
            d[f] = plain(getattr(p, f))
        return d
    d = {"kind": "pattern"}
    for f in PATTERN_FIELDS:
        d[f] = plain(getattr(p, f))
    d["data"] = [[snap_note(n) for n in line] for line in p.data]
    return d


def snap_project(p, depth=0):
    d = {"kind": "project"}
    for f in PROJECT_FIELDS:
        d[f] = plain(getattr(p, f))
    d["receive_sync_midi"] = int(p.receive_sync_midi)
    d["receive_sync_other"] = int(p.receive_sync_other)
    mods = [snap_module(m, True, depth) for m in p.modules]
    while mods and mods[-1] is None:
        mods.pop()
    d["modules"] = mods
    d["patterns"] = [snap_pattern(x) for x in p.patterns]
    if tuple(p.sunvox_version) < (1, 9, 5, 0):
        # a project that will be written as a file of a SunVox version before 1.9.5.0: such files carry
        # 8-bit module columns (documented reader rule, see C04), so that is what the project holds
        # as far as files are concerned.  (Loaded projects always have the library's own version here.)
        for pt in d["patterns"]:
            if pt and pt.get("kind") == "pattern":
                for line in pt["data"]:
                    for c in line:
                        c[2] &= 0xFF
    return d


def snap(obj, depth=0):
    t = type(obj).__name__
    if t == "Project":
        return snap_project(obj, depth)
    if t == "Synth":
        return snap_synth(obj, depth)
    if t in ("Pattern", "PatternClone"):
        return snap_pattern(obj)
    return snap_module(obj, in_project=obj.parent is not None, depth=depth)


def diff(a, b, path="", out=None, limit=12):
    """List of (path, a, b) where two snapshots differ."""
    if out is None:
        out = []
    if len(out) >= limit:
        return out
    if isinstance(a, dict) and isinstance(b, dict):
        for k in sorted(set(a) | set(b), key=str):
            if k not in a:
                out.append((path + "/" + str(k), "<absent>", _short(b[k])))
            elif k not in b:
                out.append((path + "/" + str(k), _short(a[k]), "<absent>"))
            else:
                diff(a[k], b[k], path + "/" + str(k), out, limit)
            if len(out) >= limit:
                break
    elif isinstance(a, list) and isinstance(b, list):
        if len(a) != len(b):
            out.append((path + "/#len", len(a), len(b)))
        for i, (x, y) in enumerate(zip(a, b)):
            diff(x, y, "%s/%d" % (path, i), out, limit)
            if len(out) >= limit:
                break
    else:
        if a != b or (isinstance(a, bool) != isinstance(b, bool)):
            if isinstance(a, float) and isinstance(b, float) and (a != a and b != b):
                return out
            out.append((path, _short(a), _short(b)))
    return out


def _short(v):
    s = repr(v)
    return s if len(s) < 160 else s[:157] + "..."
