"""Independent reference decoder / encoder for .sunvox / .sunsynth files.

Written from docs/sunvox-file-format.rst and specs/fileformat.yaml (via vlib.specmodel);
shares no code with the rv package.  Undocumented parts it has to know about are listed
in TRUSTED_BASE.  decode() returns a description in the vocabulary of vlib.snapshot, so
that snapshot.diff(decode(bytes), snapshot.snap(obj)) is the semantic comparison.
"""

from __future__ import annotations

import struct

from vlib import chunktools, specmodel

TRUSTED_BASE = [
    "SFGS (sync flags: midi | other<<3) and FLGS project chunks, SLnK (incoming link slots) are not in the prose documentation; layout taken from the YAML/id tables and SunVox behaviour",
    "Sampler instrument record (400 bytes) and 44-byte sample record follow the C struct comments quoted in rv/modules/sampler.py",
    "MetaModule mapping array has 96 entries (YAML) rather than the 64 of the older prose",
    "CVAL is decoded as a signed int32 (the documentation says unsigned; in-range stored values are non-negative either way)",
]


class FormatError(Exception):
    def __init__(self, rule, detail):
        super().__init__(rule, detail)
        self.rule = rule
        self.detail = detail


# Rules that only the library's own output must meet (C03).  Files from other writers /
# older SunVox versions (C04) are decoded leniently with respect to these.
LENIENT_RULES = {
    "module.CMID_reserved_zero",
    "module.CMID_flag",
    "project.required",
    "project.order",
    "options.length",
    "options.stray_bits",
    "module.context_chunks",
    "module.order",
    "pattern.order",
    "module.CMID_size",
    "module.CMID_present",
    "drawn_waveform.format",
    "drawn_waveform.freq",
    "sampler.samples_num",
    "sampler.format_consistent",
    "sampler.sample_length",
    "metamodule.label_within_count",
}
_MODE = {"strict": True}


def need(cond, rule, detail=""):
    if not cond:
        if not _MODE["strict"] and rule in LENIENT_RULES:
            return
        raise FormatError(rule, detail)


PROJECT_ORDER = [b"VERS", b"BVER", b"BPM ", b"SPED", b"TGRD", b"TGD2", b"GVOL", b"NAME", b"MSCL", b"MZOO", b"MXOF", b"MYOF", b"LMSK", b"CURL", b"TIME", b"REPS", b"SELS", b"LGEN", b"PATN", b"PATT", b"PATL"]
PROJECT_FIELDS = {
    b"BPM ": ("initial_bpm", "<I"),
    b"SPED": ("initial_tpl", "<I"),
    b"TGRD": ("time_grid", "<I"),
    b"TGD2": ("time_grid2", "<I"),
    b"GVOL": ("global_volume", "<I"),
    b"MSCL": ("modules_scale", "<I"),
    b"MZOO": ("modules_zoom", "<I"),
    b"MXOF": ("modules_x_offset", "<i"),
    b"MYOF": ("modules_y_offset", "<i"),
    b"LMSK": ("modules_layer_mask", "<I"),
    b"CURL": ("modules_current_layer", "<I"),
    b"TIME": ("timeline_position", "<i"),
    b"REPS": ("restart_position", "<i"),
    b"SELS": ("selected_module", "<I"),
    b"LGEN": ("selected_generator", "<i"),  # documented unsigned; the library's default is -1: compared as signed
    b"PATN": ("current_pattern", "<I"),
    b"PATT": ("current_track", "<I"),
    b"PATL": ("current_line", "<I"),
    b"FLGS": ("flags", "<I"),
}
PROJECT_EXTRA = {b"FLGS", b"SFGS"}
PROJECT_OPTIONAL_DEFAULTS = {"timeline_position": 0, "restart_position": 0}

PATTERN_ORDER = [b"PDTA", b"PNME", b"PCHN", b"PLIN", b"PYSZ", b"PFLG", b"PICO", b"PFGC", b"PBGC", b"PFFF", b"PXXX", b"PYYY"]
CLONE_ORDER = [b"PPAR", b"PFFF", b"PXXX", b"PYYY"]
MODULE_ORDER = [b"SFFF", b"SNAM", b"STYP", b"SFIN", b"SREL", b"SXXX", b"SYYY", b"SZZZ", b"SSCL", b"SVPR", b"SCOL", b"SMII", b"SMIN", b"SMIC", b"SMIB", b"SMIP", b"SLNK", b"SLnK", b"CVAL", b"CMID", b"CHNK"]

KNOWN_IDS = set(PROJECT_ORDER) | PROJECT_EXTRA | set(PATTERN_ORDER) | set(CLONE_ORDER) | set(MODULE_ORDER) | {b"SVOX", b"SSYN", b"PEND", b"SEND", b"CHNM", b"CHDT", b"CHFF", b"CHFR", b"PAMD", b"PSYN", b"PCTL"}


def cstring(b, rule):
    need(b.endswith(b"\0"), rule, "cstring not NUL-terminated: %r" % b[-8:])
    s = b[: b.index(b"\0")]
    try:
        return s.decode("utf8")
    except UnicodeDecodeError as e:
        raise FormatError(rule, "not UTF-8: %s" % e)


def u(fmt, b, rule):
    need(len(b) == struct.calcsize(fmt), rule, "payload %d bytes, documented %d" % (len(b), struct.calcsize(fmt)))
    return struct.unpack(fmt, b)[0]


def version(b, rule):
    need(len(b) == 4, rule, "version chunk is %d bytes" % len(b))
    return [b[3], b[2], b[1], b[0]]


def in_order(ids, order, rule, once=True, allow_extra=()):
    """ids must be a subsequence of `order` (extra known ids allowed anywhere), each at most once."""
    pos = -1
    seen = set()
    for cid in ids:
        if cid in allow_extra:
            continue
        need(cid in order, rule, "unexpected chunk %r in this section" % cid)
        p = order.index(cid)
        if once:
            need(cid not in seen, rule, "chunk %r occurs twice" % cid)
        need(p >= pos, rule, "chunk %r out of documented order" % cid)
        pos = p
        seen.add(cid)


# ---------------------------------------------------------------------------------------
# decoding


def decode(data, strict=True):
    prev = _MODE["strict"]
    _MODE["strict"] = strict
    try:
        return _decode(data)
    finally:
        _MODE["strict"] = prev


def _decode(data):
    chunks = chunktools.parse(data, strict=True)
    need(chunks, "stream.nonempty", "no chunks")
    need(chunks[0][0] in (b"SVOX", b"SSYN") and chunks[0][1] == b"", "stream.header", "first chunk is %r with %d bytes" % (chunks[0][0], len(chunks[0][1])))
    unknown = []
    kind = chunks[0][0]
    body = []
    for cid, p in chunks[1:]:
        if cid in KNOWN_IDS:
            body.append((cid, p))
        else:
            unknown.append(cid)
    if kind == b"SVOX":
        d = decode_project(body)
    else:
        d = decode_synth(body)
    d["_unknown_chunks"] = [x.decode("latin1") for x in unknown]
    return d


def split_sections(body):
    head, pats, mods = [], [], []
    cur = None
    mode = "head"
    for cid, p in body:
        if mode == "head":
            if cid in (b"PDTA", b"PPAR", b"PEND"):
                mode, cur = "pat", []
            elif cid in (b"SFFF", b"SEND"):
                mode, cur = "mod", []
            else:
                head.append((cid, p))
                continue
        if mode == "pat":
            if cid in (b"SFFF", b"SEND") and not cur:
                mode = "mod"
            else:
                cur.append((cid, p))
                if cid == b"PEND":
                    pats.append(cur)
                    cur = []
                continue
        if mode == "mod":
            cur.append((cid, p))
            if cid == b"SEND":
                mods.append(cur)
                cur = []
    need(not cur, "stream.section_terminated", "last section is not terminated by PEND/SEND: %r" % [c for c, _ in (cur or [])][:4])
    return head, pats, mods


def decode_project(body):
    head, pats, mods = split_sections(body)
    ids = [c for c, _ in head]
    in_order(ids, PROJECT_ORDER, "project.order", allow_extra=PROJECT_EXTRA)
    for cid in PROJECT_ORDER:
        if cid in (b"TIME", b"REPS", b"BVER"):
            continue
        need(cid in ids, "project.required", "project chunk %r missing" % cid)
    d = {"kind": "project"}
    d.update({"timeline_position": 0, "restart_position": 0, "flags": 0, "receive_sync_midi": 1, "receive_sync_other": 1, "based_on_version": [1, 7, 0, 0]})
    for cid, p in head:
        if cid == b"VERS":
            d["_version"] = version(p, "project.VERS")
        elif cid == b"BVER":
            d["based_on_version"] = version(p, "project.BVER")
        elif cid == b"NAME":
            d["name"] = cstring(p, "project.NAME")
        elif cid == b"SFGS":
            v = u("<I", p, "project.SFGS")
            d["receive_sync_midi"] = v & 7
            d["receive_sync_other"] = (v >> 3) & 7
        elif cid in PROJECT_FIELDS:
            name, fmt = PROJECT_FIELDS[cid]
            d[name] = u(fmt, p, "project." + cid.decode().strip())
    d["patterns"] = [decode_pattern(sec) for sec in pats]
    modules = [decode_module(sec, True, i) for i, sec in enumerate(mods)]
    need(len(modules) >= 1 and modules[0] is not None and modules[0]["class"] == "Output", "project.output_first", "module position 0 is not the Output module")
    while modules and modules[-1] is None:
        modules.pop()
    rebuild_out_links(modules)
    d["modules"] = modules
    # documented legacy fix-up: before 1.9.5.0 the high byte of note module numbers is not meaningful
    if tuple(d.get("_version", [9, 9, 9, 9])) < (1, 9, 5, 0):
        for pt in d["patterns"]:
            if pt and pt["kind"] == "pattern":
                for line in pt["data"]:
                    for c in line:
                        c[2] &= 0xFF
    return d


def decode_synth(body):
    need(body and body[0][0] == b"VERS", "synth.VERS_first", "second chunk is %r" % (body[0][0] if body else None))
    ver = version(body[0][1], "synth.VERS")
    rest = body[1:]
    need(rest and rest[-1][0] == b"SEND", "synth.SEND_last", "module section not terminated by SEND")
    need(sum(1 for c, _ in rest if c == b"SEND") == 1 and rest[0][0] == b"SFFF", "synth.single_module", "expected exactly one module section")
    m = decode_module(rest, False, 1)
    return {"kind": "synth", "_version": ver, "module": m}


def decode_pattern(sec):
    need(sec[-1][0] == b"PEND" and sec[-1][1] == b"", "pattern.PEND", "pattern slot does not end in an empty PEND")
    body = sec[:-1]
    if not body:
        return None
    ids = [c for c, _ in body]
    if ids[0] == b"PPAR":
        in_order(ids, CLONE_ORDER, "clone.order")
        need(ids == CLONE_ORDER, "clone.required", "clone chunks %r" % ids)
        v = dict(body)
        return {"kind": "clone", "source": u("<I", v[b"PPAR"], "clone.PPAR"), "flags_PFFF": u("<I", v[b"PFFF"], "clone.PFFF"), "x": u("<i", v[b"PXXX"], "clone.PXXX"), "y": u("<i", v[b"PYYY"], "clone.PYYY")}
    in_order(ids, PATTERN_ORDER, "pattern.order")
    v = dict(body)
    missing = [cid for cid in PATTERN_ORDER if cid != b"PNME" and cid not in ids]
    if missing:
        need(not _MODE["strict"] and not (set(missing) & {b"PDTA", b"PCHN", b"PLIN"}), "pattern.required", "pattern chunks %r missing" % missing)
        # older writers omit some chunks; no default is documented for them, so they stay unspecified
        tracks = u("<I", v[b"PCHN"], "pattern.PCHN")
        lines = u("<I", v[b"PLIN"], "pattern.PLIN")
        pd = v[b"PDTA"]
        need(len(pd) == lines * tracks * 8, "pattern.PDTA_size", "PDTA is %d bytes for %d lines x %d tracks" % (len(pd), lines, tracks))
        out = {"kind": "pattern", "tracks": tracks, "lines": lines, "name": cstring(v[b"PNME"], "pattern.PNME") if b"PNME" in v else None}
        out["data"] = [[list(struct.unpack_from("<BBHHH", pd, (ln * tracks + tr) * 8)) for tr in range(tracks)] for ln in range(lines)]
        for cid, key, fmt in ((b"PYSZ", "y_size", "<I"), (b"PFLG", "flags_PFLG", "<I"), (b"PFFF", "flags_PFFF", "<I"), (b"PXXX", "x", "<i"), (b"PYYY", "y", "<i")):
            if cid in v:
                out[key] = u(fmt, v[cid], "pattern." + cid.decode())
        if b"PICO" in v:
            out["icon"] = {"__bytes__": v[b"PICO"].hex()}
        if b"PFGC" in v:
            out["fg_color"] = list(v[b"PFGC"])
        if b"PBGC" in v:
            out["bg_color"] = list(v[b"PBGC"])
        return out
    tracks = u("<I", v[b"PCHN"], "pattern.PCHN")
    lines = u("<I", v[b"PLIN"], "pattern.PLIN")
    pd = v[b"PDTA"]
    need(len(pd) == lines * tracks * 8, "pattern.PDTA_size", "PDTA is %d bytes for %d lines x %d tracks" % (len(pd), lines, tracks))
    need(len(v[b"PICO"]) == 32, "pattern.PICO_size", "PICO is %d bytes" % len(v[b"PICO"]))
    need(len(v[b"PFGC"]) == 3 and len(v[b"PBGC"]) == 3, "pattern.colour_size", "colours are %d/%d bytes" % (len(v[b"PFGC"]), len(v[b"PBGC"])))
    data = []
    for ln in range(lines):
        row = []
        for tr in range(tracks):
            row.append(list(struct.unpack_from("<BBHHH", pd, (ln * tracks + tr) * 8)))
        data.append(row)
    return {
        "kind": "pattern",
        "name": cstring(v[b"PNME"], "pattern.PNME") if b"PNME" in v else None,
        "tracks": tracks,
        "lines": lines,
        "y_size": u("<I", v[b"PYSZ"], "pattern.PYSZ"),
        "flags_PFLG": u("<I", v[b"PFLG"], "pattern.PFLG"),
        "icon": {"__bytes__": v[b"PICO"].hex()},
        "fg_color": list(v[b"PFGC"]),
        "bg_color": list(v[b"PBGC"]),
        "flags_PFFF": u("<I", v[b"PFFF"], "pattern.PFFF"),
        "x": u("<i", v[b"PXXX"], "pattern.PXXX"),
        "y": u("<i", v[b"PYYY"], "pattern.PYYY"),
        "data": data,
    }


def decode_module(sec, in_project, position):
    need(sec[-1][0] == b"SEND" and sec[-1][1] == b"", "module.SEND", "module slot does not end in an empty SEND")
    body = sec[:-1]
    if not body:
        return None
    # split common part and module-specific chunk part
    common, spec_part = [], []
    seen_chnk = False
    for cid, p in body:
        if cid in (b"CHNM", b"CHDT", b"CHFF", b"CHFR"):
            need(seen_chnk, "module.CHNK_precedes_chunks", "%r before any CHNK" % cid)
            spec_part.append((cid, p))
        else:
            need(not spec_part, "module.common_before_chunks", "%r after the module-specific chunks started" % cid)
            if cid == b"CHNK":
                need(not seen_chnk, "module.CHNK_once", "two CHNK chunks")
                seen_chnk = True
            common.append((cid, p))
    ids = [c for c, _ in common]
    pos = -1
    seen = set()
    for cid in ids:
        need(cid in MODULE_ORDER, "module.order", "unexpected chunk %r" % cid)
        p_ = MODULE_ORDER.index(cid)
        need(p_ >= pos, "module.order", "chunk %r out of documented order" % cid)
        if cid != b"CVAL":
            need(cid not in seen, "module.order", "chunk %r occurs twice" % cid)
        seen.add(cid)
        pos = p_
    v = {}
    cvals = []
    for cid, p in common:
        if cid == b"CVAL":
            cvals.append(u("<i", p, "module.CVAL_size"))
        else:
            v[cid] = p
    absent = []
    for cid in (b"SFFF", b"SNAM", b"SFIN", b"SREL", b"SSCL", b"SCOL", b"SMII", b"SMIC", b"SMIB", b"SMIP"):
        if cid not in v:
            need(not _MODE["strict"] and cid not in (b"SFFF", b"SNAM"), "module.required", "module chunk %r missing" % cid)
            absent.append(cid)
            # no default is documented: the field stays unspecified (removed again below)
            v[cid] = {b"SCOL": b"\0\0\0"}.get(cid, b"\0\0\0\0")
    need(len(v[b"SNAM"]) == 32, "module.SNAM_size", "SNAM is %d bytes" % len(v[b"SNAM"]))
    spec = specmodel.by_mtype()
    if b"STYP" in v:
        mtype = cstring(v[b"STYP"], "module.STYP")
        need(mtype != "Output", "module.STYP_absent_for_output", "STYP present for Output")
        need(mtype in spec, "module.STYP_known", "module type %r not in the specification" % mtype)
    else:
        mtype = "Output"
    mt = spec[mtype]
    for cid in (b"SXXX", b"SYYY", b"SZZZ", b"SVPR"):
        need((cid in v) == in_project, "module.context_chunks", "%r %s in a %s file" % (cid, "present" if cid in v else "absent", "project" if in_project else "synth"))
    need(len(v[b"SCOL"]) == 3, "module.SCOL_size", "SCOL is %d bytes" % len(v[b"SCOL"]))
    name_raw = v[b"SNAM"]
    nb = name_raw.split(b"\0")[0]
    try:
        name = nb.decode("utf8")
    except UnicodeDecodeError as e:
        raise FormatError("module.SNAM_utf8", "module name is not valid UTF-8: %s" % e)
    smii = u("<I", v[b"SMII"], "module.SMII")
    d = {
        "class": mt.cls_name,
        "mtype": mtype,
        "name": "Output" if mtype == "Output" else name,
        "flags": (u("<I", v[b"SFFF"], "module.SFFF") | mt.flags) & 0xFFFFFFFF,
        "finetune": u("<i", v[b"SFIN"], "module.SFIN"),
        "relative_note": u("<i", v[b"SREL"], "module.SREL"),
        "scale": u("<I", v[b"SSCL"], "module.SSCL"),
        "color": list(v[b"SCOL"]),
        "midi_in_always": smii & 1,
        "midi_in_channel": smii >> 1,
        "midi_out_name": (cstring(v[b"SMIN"], "module.SMIN") or None) if b"SMIN" in v else None,
        "midi_out_channel": u("<I", v[b"SMIC"], "module.SMIC"),
        "midi_out_bank": u("<i", v[b"SMIB"], "module.SMIB"),
        "midi_out_program": u("<i", v[b"SMIP"], "module.SMIP"),
    }
    for cid in absent:
        for key in {b"SFIN": ["finetune"], b"SREL": ["relative_note"], b"SSCL": ["scale"], b"SCOL": ["color"], b"SMII": ["midi_in_always", "midi_in_channel"], b"SMIC": ["midi_out_channel"], b"SMIB": ["midi_out_bank"], b"SMIP": ["midi_out_program"]}[cid]:
            d.pop(key)
    if in_project:
        for cid, key, fmt in ((b"SXXX", "x", "<i"), (b"SYYY", "y", "<i"), (b"SZZZ", "layer", "<I"), (b"SVPR", "visualization", "<I")):
            if cid in v:
                d[key] = u(fmt, v[cid], "module." + cid.decode())
        need(b"SLNK" in v, "module.SLNK_present", "SLNK missing in a project module")
        need(len(v[b"SLNK"]) % 4 == 0, "module.SLNK_size", "SLNK is %d bytes" % len(v[b"SLNK"]))
        il = list(struct.unpack("<%di" % (len(v[b"SLNK"]) // 4), v[b"SLNK"]))
        ils = None
        if b"SLnK" in v:
            need(len(v[b"SLnK"]) % 4 == 0, "module.SLnK_size", "SLnK is %d bytes" % len(v[b"SLnK"]))
            ils = list(struct.unpack("<%di" % (len(v[b"SLnK"]) // 4), v[b"SLnK"]))
        d["_in_links_raw"] = il
        d["_in_link_slots_raw"] = ils
    # module-specific chunks
    chnk = u("<I", v[b"CHNK"], "module.CHNK") if b"CHNK" in v else None
    by = {}
    cur = None
    prev = None
    for cid, p in spec_part:
        if cid == b"CHNM":
            num = u("<I", p, "module.CHNM_size")
            need(num < chnk, "module.CHNM_below_CHNK", "CHNM %d with CHNK %d" % (num, chnk))
            need(num not in by, "module.CHNM_unique", "CHNM %d twice" % num)
            cur = by[num] = {"CHDT": None, "CHFF": None, "CHFR": None}
        elif cid == b"CHDT":
            need(prev == b"CHNM", "module.CHDT_follows_CHNM", "CHDT after %r" % prev)
            cur["CHDT"] = p
        elif cid == b"CHFF":
            need(cur is not None and cur["CHDT"] is not None, "module.CHFF_after_CHDT", "")
            cur["CHFF"] = u("<I", p, "module.CHFF")
        elif cid == b"CHFR":
            need(cur is not None and cur["CHDT"] is not None, "module.CHFR_after_CHDT", "")
            cur["CHFR"] = u("<I", p, "module.CHFR")
        prev = cid
    for num, c in by.items():
        need(c["CHDT"] is not None, "module.CHDT_follows_CHNM", "CHNM %d without CHDT" % num)
    # options
    options = {}
    if mt.options and mt.options_chnm not in by and not _MODE["strict"]:
        # older writers: no options chunk at all -> the YAML's declared defaults
        for o in mt.options:
            options[o.name] = mt.enums[o.enum][specmodel.mangle(o.default)] if o.enum else int(o.default)
    elif mt.options:
        need(mt.options_chnm in by, "options.chunk_present", "%s has no options chunk %r" % (mtype, mt.options_chnm))
        ob = by[mt.options_chnm]["CHDT"]
        top = max(o.byte for o in mt.options) + 1
        need(top <= len(ob) <= 64, "options.length", "options chunk is %d bytes; highest option byte needs %d, maximum 64" % (len(ob), top))
        bm = list(ob) + [0] * 64
        used = [0] * 64
        for o in mt.options:
            raw = (bm[o.byte] >> o.bit) & ((1 << o.size) - 1)
            used[o.byte] |= ((1 << o.size) - 1) << o.bit
            options[o.name] = int(not raw) if o.inverted else raw
        for i in range(len(ob)):
            need(ob[i] & ~used[i] & 0xFF == 0, "options.stray_bits", "options byte %d = 0x%02x has bits outside every declared option" % (i, ob[i]))
    d["options"] = options
    # controllers
    n_user = options.get("user_defined_controllers", 0) if mtype == "MetaModule" else 0
    n_ctl = len(mt.controllers) + min(n_user, 96)
    d["_n_cvals"] = len(cvals)
    d["_n_expected_cvals"] = n_ctl
    ctl_values = {}
    units = {}
    for i, c in enumerate(mt.controllers):
        if i < len(cvals) and c.kind == "enum":
            inv = {val: k for k, val in c.members.items()}
            units[c.name] = inv.get(cvals[i])
    for i, c in enumerate(mt.controllers):
        if i >= len(cvals):
            # documented default
            if c.kind == "enum":
                ctl_values[c.name] = [c.enum, c.members[c.default]]
            elif c.kind == "bool":
                ctl_values[c.name] = int(c.default)
            else:
                ctl_values[c.name] = c.default
            continue
        raw = cvals[i]
        if c.kind in ("range", "compact"):
            ctl_values[c.name] = raw + c.min if c.min < 0 else raw
        elif c.kind == "no_offset":
            ctl_values[c.name] = raw
        elif c.kind == "enum":
            ctl_values[c.name] = [c.enum, raw]
        elif c.kind == "bool":
            ctl_values[c.name] = int(bool(raw))
        else:
            unit = units.get(c.depends_on) or mt.ctl(c.depends_on).default
            lo = c.ranges.get(unit, (0, 0))[0]
            ctl_values[c.name] = raw + lo if lo < 0 else raw
    d["controllers"] = ctl_values
    # CMID
    cmid = {}
    names = [c.name for c in mt.controllers] + ["user_defined_%d" % (i + 1) for i in range(min(n_user, 96))]
    if b"CMID" in v:
        cm = v[b"CMID"]
        need(len(cm) == 8 * len(cvals), "module.CMID_size", "CMID is %d bytes for %d CVALs" % (len(cm), len(cvals)))
        for i in range(len(cm) // 8):
            t, ch, sl, r1, par, r2, flag = struct.unpack_from("<BBBBHBB", cm, i * 8)
            need(r1 == 0 and r2 == 0, "module.CMID_reserved_zero", "binding %d reserved bytes %d/%d" % (i, r1, r2))
            need(flag == (0xFF if t == 0 else 0xC8), "module.CMID_flag", "binding %d type %d flag 0x%02x" % (i, t, flag))
            need(t <= 8 and sl <= 5, "module.CMID_enums", "binding %d type %d slope %d" % (i, t, sl))
            if i < len(names):
                cmid[names[i]] = [t, ch, sl, par]
    else:
        need(len(cvals) == 0, "module.CMID_present", "%d CVALs but no CMID" % len(cvals))
    for nm in names:
        cmid.setdefault(nm, [0, 0, 0, 0])
    d["cmid"] = cmid
    d["payload"] = decode_payload(mt, by, cvals, n_user, position)
    d["_chunks"] = sorted(by)
    return d


def arr(fmt, size, count, b, rule):
    need(len(b) == size * count, rule, "array chunk is %d bytes, documented %d x %d" % (len(b), count, size))
    return list(struct.unpack("<%d%s" % (count, fmt), b))


def yaml_default(mt, name):
    for ch in mt.chunks:
        if ch.get("name") == name:
            dv = ch.get("default")
            n = ch.get("length") or (len(dv) if isinstance(dv, list) else None)
            if isinstance(dv, list):
                return list(dv)
            return [dv] * n
    raise KeyError(name)


DRAWN_DEFAULT = [0x00, 0x9C, 0xA6, 0x00, 0x5A, 0x89, 0xEC, 0x2D, 0x02, 0xEC, 0x6F, 0xE9, 0x02, 0x9E, 0x3C, 0x20, 0x64, 0x32, 0x00, 0xCE, 0x41, 0x62, 0x32, 0x20, 0xA6, 0x88, 0x64, 0x5A, 0x3B, 0x15, 0x00, 0x36]


def signed8(x):
    return x - 256 if x >= 128 else x


def decode_payload(mt, by, cvals, n_user, position):
    t = mt.cls_name
    p = {}

    def chdt(num):
        return by[num]["CHDT"] if num in by else None

    if t == "MultiSynth":
        b0, b2, b3 = chdt(0), chdt(2), chdt(3)
        p["nv_curve"] = arr("B", 1, 128, b0, "multisynth.nv_curve") if b0 is not None else yaml_default(mt, "note_velocity_curve")
        p["vv_curve"] = arr("B", 1, 257, b2, "multisynth.vv_curve") if b2 is not None else yaml_default(mt, "velocity_velocity_curve")
        p["np_curve"] = arr("H", 2, 128, b3, "multisynth.np_curve") if b3 is not None else yaml_default(mt, "note_pitch_curve")
    elif t == "WaveShaper":
        b0 = chdt(0)
        p["curve"] = arr("H", 2, 256, b0, "waveshaper.curve") if b0 is not None else yaml_default(mt, "curve")
    elif t == "MultiCtl":
        b0, b1 = chdt(0), chdt(1)
        if b0 is not None:
            vals = arr("I", 4, 16 * 8, b0, "multictl.mappings")
            p["mappings"] = [vals[i * 8 : i * 8 + 8] for i in range(16)]
        else:
            p["mappings"] = [[0, 0x8000, 0, 0, 0, 0, 0, 0] for _ in range(16)]
        p["curve"] = arr("H", 2, 257, b1, "multictl.curve") if b1 is not None else yaml_default(mt, "curve")
    elif t == "SpectraVoice":
        names = [("harmonic_freqs", "H", 2), ("harmonic_volumes", "B", 1), ("harmonic_widths", "B", 1), ("harmonic_types", "B", 1)]
        for num, (nm, f, sz) in enumerate(names):
            b = chdt(num)
            if b is not None:
                p[nm] = arr(f, sz, 16, b, "spectravoice." + nm)
            else:
                dv = yaml_default(mt, nm)
                p[nm] = [mt.enums["HarmonicType"][specmodel.mangle(x)] for x in dv] if nm == "harmonic_types" else dv
        p["harmonics"] = [[p["harmonic_freqs"][i], p["harmonic_volumes"][i], p["harmonic_widths"][i], p["harmonic_types"][i]] for i in range(16)]
    elif t == "Fmx":
        b0 = chdt(0)
        p["custom_waveform"] = arr("f", 4, 256, b0, "fmx.custom_waveform") if b0 is not None else [0.0] * 256
    elif t in ("Generator", "AnalogGenerator"):
        c = by.get(0)
        if c is not None:
            need(len(c["CHDT"]) == 32, "drawn_waveform.size", "drawn waveform is %d bytes" % len(c["CHDT"]))
            need(c["CHFF"] in (None, 0, 1), "drawn_waveform.format", "CHFF %r (mono 8-bit = 1)" % c["CHFF"])
            need(c["CHFR"] in (None, 44100), "drawn_waveform.freq", "CHFR %r" % c["CHFR"])
            p["drawn_waveform"] = {"samples": [signed8(x) for x in c["CHDT"]], "format": ["Format", 1], "freq": 44100}
        else:
            p["drawn_waveform"] = {"samples": [signed8(x) for x in DRAWN_DEFAULT], "format": ["Format", 1], "freq": 44100}
    elif t == "VorbisPlayer":
        b0 = chdt(0)
        p["data"] = {"__bytes__": (b0 or b"").hex()}
    elif t == "MetaModule":
        need(0 in by, "metamodule.project_chunk", "no embedded project (chunk 0)")
        inner = _decode(by[0]["CHDT"])
        need(inner["kind"] == "project", "metamodule.project_kind", "chunk 0 is not a project")
        for k in [k for k in inner if k.startswith("_")]:
            inner.pop(k)
        p["project"] = inner
        b1 = chdt(1)
        if b1 is not None:
            if not _MODE["strict"] and len(b1) % 4 == 0 and len(b1) < 96 * 4:
                # the prose documents 64 entries (older files); remaining entries are unset
                vals = arr("H", 2, len(b1) // 2, b1, "metamodule.mappings") + [0] * (96 * 2 - len(b1) // 2)
            else:
                vals = arr("H", 2, 96 * 2, b1, "metamodule.mappings")
            p["mappings"] = [vals[i * 2 : i * 2 + 2] for i in range(96)]
        else:
            p["mappings"] = [[0, 0] for _ in range(96)]
        n = min(n_user, 96)
        labels = [None] * n
        for num in by:
            if num >= 8:
                need(num - 8 < n, "metamodule.label_within_count", "label chunk for user controller %d, count %d" % (num - 8, n))
                labels[num - 8] = cstring(by[num]["CHDT"], "metamodule.label")
        p["labels"] = labels
        p["count"] = n_user
        p["attached"] = list(range(n))
        base = len(mt.controllers)
        p["stored_values"] = [cvals[base + i] if base + i < len(cvals) else 0 for i in range(n)]
    elif t == "Sampler":
        p = decode_sampler(by)
    return p


def decode_sampler(by):
    need(0 in by, "sampler.record_present", "no instrument record (chunk 0)")
    rec = by[0]["CHDT"]
    need(len(rec) == 400, "sampler.record_size", "instrument record is %d bytes, documented 400" % len(rec))
    need(rec[0xFC:0x100] == b"PMAS", "sampler.signature", "signature at 0xFC is %r" % rec[0xFC:0x100])
    p = {}
    (p["unused1"],) = struct.unpack_from("<I", rec, 0)
    p["instrument_name"] = {"__bytes__": rec[4:26].rstrip(b"\0").hex()}
    p["unused2"], samples_num, p["unused3"] = struct.unpack_from("<HHH", rec, 0x1A)
    (p["unused4"],) = struct.unpack_from("<I", rec, 0x20)
    vt, p["vibrato_attack"], p["vibrato_depth"], p["vibrato_rate"] = struct.unpack_from("<BBBB", rec, 0xEE)
    p["vibrato_type"] = ["VibratoType", vt]
    (p["volume_fadeout"],) = struct.unpack_from("<H", rec, 0xF2)
    p["volume_old"], p["ins_finetune"], p["unused5"], p["ins_relative_note"] = struct.unpack_from("<BbBb", rec, 0xF4)
    (p["unused6"],) = struct.unpack_from("<I", rec, 0xF8)
    (p["version"],) = struct.unpack_from("<I", rec, 0x100)
    p["note_samples"] = list(rec[0x104 : 0x104 + 119])
    p["note_sample_keys"] = list(range(1, 120))
    p["max_version"], p["editor_cursor"], p["editor_selected_size"] = struct.unpack_from("<Iii", rec, 0x184)
    samples = [None] * 128
    top = 0
    for i in range(128):
        a, b = 2 * i + 1, 2 * i + 2
        if a in by or b in by:
            need(a in by and b in by, "sampler.sample_chunk_pair", "slot %d has only one of its two chunks" % i)
            meta = by[a]["CHDT"]
            need(len(meta) >= 40, "sampler.sample_record_size", "sample record %d bytes" % len(meta))
            frames, ls, ll = struct.unpack_from("<III", meta, 0)
            vol, fin, typ, pan, rel, res2 = struct.unpack_from("<BbBBbB", meta, 0xC)
            dat = by[b]
            chff = dat["CHFF"] if dat["CHFF"] is not None else 0
            fmt = (chff & 7) or 1
            ch = chff & 8
            need(fmt in (1, 2, 4), "sampler.sample_format", "CHFF %r" % chff)
            need({0x00: 1, 0x10: 2, 0x20: 4}.get(typ & 0x30) == fmt and bool(typ & 0x40) == bool(ch), "sampler.format_consistent", "type byte 0x%02x vs CHFF 0x%x" % (typ, chff))
            fsz = fmt * (2 if ch else 1)
            need(frames == len(dat["CHDT"]) // fsz, "sampler.sample_length", "record says %d frames, data has %d" % (frames, len(dat["CHDT"]) // fsz))
            samples[i] = {
                "loop_start": ls,
                "loop_len": ll,
                "volume": vol,
                "finetune": fin,
                "format": ["Format", fmt],
                "channels": ["Channels", ch],
                "rate": dat["CHFR"] if dat["CHFR"] is not None else 44100,
                "loop_type": ["LoopType", typ & 3],
                "loop_sustain": int(bool(typ & 4)),
                "panning": pan - 128,
                "relative_note": rel,
                "reserved2": res2,
                "start_pos": struct.unpack_from("<I", meta, 0x28)[0] if len(meta) >= 0x2C else 0,
                "data": {"__bytes__": dat["CHDT"].hex()},
                "name": {"__bytes__": meta[0x12 : 0x12 + 22].rstrip(b"\0").hex()},
            }
            top = i + 1
    need(samples_num == top, "sampler.samples_num", "samples_num %d, highest used slot + 1 = %d" % (samples_num, top))
    p["samples"] = samples

    def env(num, ymin):
        need(num in by, "sampler.envelope_present", "no envelope chunk 0x%x" % num)
        b = by[num]["CHDT"]
        need(len(b) >= 0x14, "sampler.envelope_size", "envelope chunk %d bytes" % len(b))
        flags, ctl, gain, vel = struct.unpack_from("<HBBB", b, 0)
        n, sus, ls, le = struct.unpack_from("<HHHH", b, 8)
        need(len(b) == 0x14 + 4 * n, "sampler.envelope_size", "envelope chunk is %d bytes for %d points" % (len(b), n))
        pts = [list(struct.unpack_from("<HH", b, 0x14 + 4 * i)) for i in range(n)]
        return {"enable": flags & 1, "sustain": (flags >> 1) & 1, "loop": (flags >> 2) & 1, "ctl_index": ctl, "gain_pct": gain, "velocity": vel, "sustain_point": sus, "loop_start_point": ls, "loop_end_point": le, "points": [[x, y + ymin] for x, y in pts]}

    p["volume_envelope"] = env(0x102, 0)
    p["panning_envelope"] = env(0x103, -0x4000)
    p["pitch_envelope"] = env(0x104, -0x4000)
    p["effect_control_envelopes"] = [env(0x105 + j, 0) for j in range(4)]
    if 0x10A in by:
        eff = _decode(by[0x10A]["CHDT"])
        need(eff["kind"] == "synth", "sampler.effect_kind", "effect chunk is not a sunsynth")
        for k in [k for k in eff if k.startswith("_")]:
            eff.pop(k)
        strip_private(eff["module"])
        p["effect"] = eff
    else:
        p["effect"] = None
    return p


def rebuild_out_links(modules):
    """in-links (+ slots when given; all-zero when the optional SLnK is absent) -> the four
    tables of the snapshot vocabulary, trailing freed slots dropped."""
    for m in modules:
        if m is None:
            continue
        il = list(m.pop("_in_links_raw"))
        ils = m.pop("_in_link_slots_raw")
        while il and il[-1] == -1:
            il.pop()
        if ils is None:
            ils = [0 if x != -1 else -1 for x in il]
            m["_slnk_present"] = False
        else:
            need(len(ils) >= len(il), "module.SLnK_covers_links", "SLnK has %d entries for %d links" % (len(ils), len(il)))
            ils = list(ils[: len(il)])
            m["_slnk_present"] = True
        m["links"] = {"in_links": il, "in_link_slots": ils, "out_links": [], "out_link_slots": []}
    for d, m in enumerate(modules):
        if m is None:
            continue
        ln = m["links"]
        for i, (s_, k) in enumerate(zip(ln["in_links"], ln["in_link_slots"])):
            if s_ == -1 or k == -1:
                continue
            need(0 <= s_ < len(modules) and modules[s_] is not None, "module.SLNK_target_exists", "module %d links from non-existent module %d" % (d, s_))
            src = modules[s_]["links"]
            while len(src["out_links"]) <= k:
                src["out_links"].append(-1)
                src["out_link_slots"].append(-1)
            if src["out_links"][k] != -1 and not _MODE["strict"] and not m["_slnk_present"]:
                # pre-SLnK files: slot numbers are not in the file; only the graph is specified
                for mm in modules:
                    if mm is not None:
                        mm["links"] = {"in_links": mm["links"]["in_links"]}
                return modules
            need(src["out_links"][k] == -1, "module.link_slots_unique", "two links claim slot %d of module %d" % (k, s_))
            src["out_links"][k] = d
            src["out_link_slots"][k] = i
    for m in modules:
        if m is None:
            continue
        ln = m["links"]
        while ln["out_links"] and ln["out_links"][-1] == -1:
            ln["out_links"].pop()
            ln["out_link_slots"].pop()
    return modules


def strip_private(d):
    if isinstance(d, dict):
        for k in [k for k in d if isinstance(k, str) and k.startswith("_") and k != "__bytes__"]:
            d.pop(k)
        for v in d.values():
            strip_private(v)
    elif isinstance(d, list):
        for v in d:
            strip_private(v)
    return d


# ---------------------------------------------------------------------------------------
# encoding (description in snapshot vocabulary -> bytes), independent of rv's writers


def enc_cstr(s):
    return s.encode("utf8") + b"\0"


def enc_version(v):
    return bytes([v[3], v[2], v[1], v[0]])


class Variations:
    """What the encoder may do differently from the library's own writer."""

    def __init__(self, **kw):
        self.vers = kw.get("vers", [2, 1, 2, 1])
        self.drop = set(kw.get("drop", ()))  # chunk ids (str) of documented-optional chunks to leave out
        self.cval_keep = kw.get("cval_keep")  # {module position: number of CVALs to keep}
        self.header_perm = kw.get("header_perm")  # permutation seed list for the independent project header chunks
        self.slnk_terminator = kw.get("slnk_terminator", False)
        self.options_pad64 = kw.get("options_pad64", True)
        self.chnk_slack = kw.get("chnk_slack", 0)
        self.write_slnk_always = kw.get("write_slnk_always", False)
        self.inner_vers = kw.get("inner_vers")  # VERS written into nested containers (embedded projects, effects); None = same as outer


def encode(desc, var=None):
    var = var or Variations()
    if desc["kind"] == "project":
        chunks = [(b"SVOX", b"")] + encode_project_chunks(desc, var)
    else:
        chunks = [(b"SSYN", b""), (b"VERS", enc_version(var.vers))] + encode_module_chunks(desc["module"], False, var, 1) + [(b"SEND", b"")]
    return chunks


def encode_project_chunks(d, var):
    head = [(b"VERS", enc_version(var.vers))]
    if "BVER" not in var.drop:
        head.append((b"BVER", enc_version(d["based_on_version"])))
    indep = []
    indep.append((b"FLGS", struct.pack("<I", d["flags"])))
    indep.append((b"SFGS", struct.pack("<I", d["receive_sync_midi"] | (d["receive_sync_other"] << 3))))
    for cid in PROJECT_ORDER[2:]:
        if cid == b"NAME":
            indep.append((cid, enc_cstr(d["name"])))
            continue
        name, fmt = PROJECT_FIELDS[cid]
        if cid in (b"TIME", b"REPS") and (cid.decode() in var.drop):
            continue
        v = d[name]
        indep.append((cid, struct.pack(fmt, v)))
    if var.header_perm:
        order = sorted(range(len(indep)), key=lambda i: var.header_perm[i % len(var.header_perm)] * 1000 + i)
        indep = [indep[i] for i in order]
    out = head + indep
    for pt in d["patterns"]:
        out += encode_pattern(pt, var)
        out.append((b"PEND", b""))
    for i, m in enumerate(d["modules"]):
        if m is not None:
            out += encode_module_chunks(m, True, var, i)
        out.append((b"SEND", b""))
    return out


def encode_pattern(pt, var):
    if pt is None:
        return []
    if pt["kind"] == "clone":
        return [(b"PPAR", struct.pack("<I", pt["source"])), (b"PFFF", struct.pack("<I", pt["flags_PFFF"])), (b"PXXX", struct.pack("<i", pt["x"])), (b"PYYY", struct.pack("<i", pt["y"]))]
    pd = b"".join(struct.pack("<BBHHH", *c) for line in pt["data"] for c in line)
    out = [(b"PDTA", pd)]
    if pt["name"] is not None and "PNME" not in var.drop:
        out.append((b"PNME", enc_cstr(pt["name"])))
    out += [
        (b"PCHN", struct.pack("<I", pt["tracks"])),
        (b"PLIN", struct.pack("<I", pt["lines"])),
        (b"PYSZ", struct.pack("<I", pt["y_size"])),
        (b"PFLG", struct.pack("<I", pt["flags_PFLG"])),
        (b"PICO", bytes.fromhex(pt["icon"]["__bytes__"])),
        (b"PFGC", bytes(pt["fg_color"])),
        (b"PBGC", bytes(pt["bg_color"])),
        (b"PFFF", struct.pack("<I", pt["flags_PFFF"])),
        (b"PXXX", struct.pack("<i", pt["x"])),
        (b"PYYY", struct.pack("<i", pt["y"])),
    ]
    return out


def stored_value(c, v, unit_lo=0):
    if c.kind in ("range", "compact"):
        return v - c.min if c.min < 0 else v
    if c.kind == "no_offset":
        return v
    if c.kind == "enum":
        return v[1]
    if c.kind == "bool":
        return int(v)
    return v - unit_lo if unit_lo < 0 else v


def encode_module_chunks(m, in_project, var, position):
    mt = specmodel.load()[m["class"]]
    name = "" if m["class"] == "Output" and False else m["name"]
    nb = name.encode("utf8")[:32]
    # never cut inside a character
    while True:
        try:
            nb.decode("utf8")
            break
        except UnicodeDecodeError:
            nb = nb[:-1]
    out = [(b"SFFF", struct.pack("<I", m["flags"])), (b"SNAM", nb.ljust(32, b"\0"))]
    if m["class"] != "Output":
        out.append((b"STYP", enc_cstr(mt.mtype)))
    out += [(b"SFIN", struct.pack("<i", m["finetune"])), (b"SREL", struct.pack("<i", m["relative_note"]))]
    if in_project:
        out += [(b"SXXX", struct.pack("<i", m["x"])), (b"SYYY", struct.pack("<i", m["y"])), (b"SZZZ", struct.pack("<I", m["layer"]))]
    out.append((b"SSCL", struct.pack("<I", m["scale"])))
    if in_project:
        out.append((b"SVPR", struct.pack("<I", m["visualization"])))
    out.append((b"SCOL", bytes(m["color"])))
    out.append((b"SMII", struct.pack("<I", m["midi_in_always"] | (m["midi_in_channel"] << 1))))
    if m["midi_out_name"] and "SMIN" not in var.drop:
        out.append((b"SMIN", enc_cstr(m["midi_out_name"])))
    out += [(b"SMIC", struct.pack("<I", m["midi_out_channel"])), (b"SMIB", struct.pack("<i", m["midi_out_bank"])), (b"SMIP", struct.pack("<i", m["midi_out_program"]))]
    if in_project:
        ln = m["links"]
        il = list(ln["in_links"])
        ils = list(ln["in_link_slots"])
        if var.slnk_terminator and il:
            il_w = il + [-1]
        else:
            il_w = il
        out.append((b"SLNK", struct.pack("<%di" % len(il_w), *il_w)))
        if il and (var.write_slnk_always or any(s not in (0, -1) for s in ils)):
            ils_w = ils + ([-1] if var.slnk_terminator else [])
            out.append((b"SLnK", struct.pack("<%di" % len(ils_w), *ils_w)))
    # controller values
    cv = []
    for c in mt.controllers:
        v = m["controllers"][c.name]
        lo = 0
        if c.kind == "dependent":
            unit = m["controllers"][c.depends_on]
            inv = {val: k for k, val in mt.ctl(c.depends_on).members.items()}
            lo = c.ranges[inv[unit[1]]][0]
        cv.append(stored_value(c, v, lo))
    names = [c.name for c in mt.controllers]
    if m["class"] == "MetaModule":
        n = min(m["payload"]["count"], 96)
        cv += list(m["payload"]["stored_values"][:n])
        names += ["user_defined_%d" % (i + 1) for i in range(n)]
    keep = len(cv)
    if var.cval_keep and position in var.cval_keep and m["class"] != "MetaModule":
        keep = min(keep, var.cval_keep[position])
    for raw in cv[:keep]:
        out.append((b"CVAL", struct.pack("<i", raw)))
    if keep:
        cm = b""
        for nm in names[:keep]:
            t, ch, sl, par = m["cmid"][nm]
            cm += struct.pack("<BBBBHBB", t, ch, sl, 0, par, 0, 0xFF if t == 0 else 0xC8)
        out.append((b"CMID", cm))
    spec_chunks = encode_payload(mt, m, var)
    if spec_chunks:
        top = max(num for num, *_ in spec_chunks) + 1 + var.chnk_slack
        out.append((b"CHNK", struct.pack("<I", top)))
        for num, data, chff, chfr in spec_chunks:
            out.append((b"CHNM", struct.pack("<I", num)))
            out.append((b"CHDT", data))
            if chff is not None:
                out.append((b"CHFF", struct.pack("<I", chff)))
            if chfr is not None:
                out.append((b"CHFR", struct.pack("<I", chfr)))
    return out


def options_bytes(mt, opts, pad64):
    bm = [0] * 64
    for o in mt.options:
        logical = opts[o.name]
        stored = int(not logical) if o.inverted else int(logical)
        bm[o.byte] |= (stored & ((1 << o.size) - 1)) << o.bit
    n = 64 if pad64 else max(o.byte for o in mt.options) + 1
    return bytes(bm[:n])


def encode_envelope(e, ymin):
    flags = e["enable"] | (e["sustain"] << 1) | (e["loop"] << 2)
    b = struct.pack("<HBBB", flags, e["ctl_index"], e["gain_pct"], e["velocity"]) + b"\0\0\0"
    b += struct.pack("<HHHH", len(e["points"]), e["sustain_point"], e["loop_start_point"], e["loop_end_point"]) + b"\0\0\0\0"
    for x, y in e["points"]:
        b += struct.pack("<HH", x, y - ymin)
    return b


def encode_payload(mt, m, var):
    """list of (chnm, chdt, chff or None, chfr or None) in ascending documented order"""
    t = mt.cls_name
    p = m["payload"]
    out = []
    opt = None
    if mt.options:
        opt = (mt.options_chnm, options_bytes(mt, m["options"], var.options_pad64), None, None)
    if t == "MultiSynth":
        out.append((0, struct.pack("<128B", *p["nv_curve"]), None, None))
        out.append(opt)
        out.append((2, struct.pack("<257B", *p["vv_curve"]), None, None))
        if "np_curve" not in var.drop:
            out.append((3, struct.pack("<128H", *p["np_curve"]), None, None))
    elif t == "WaveShaper":
        out.append((0, struct.pack("<256H", *p["curve"]), None, None))
    elif t == "MultiCtl":
        out.append((0, b"".join(struct.pack("<8I", *x) for x in p["mappings"]), None, None))
        out.append((1, struct.pack("<257H", *p["curve"]), None, None))
    elif t == "SpectraVoice":
        out.append((0, struct.pack("<16H", *p["harmonic_freqs"]), None, None))
        out.append((1, struct.pack("<16B", *p["harmonic_volumes"]), None, None))
        out.append((2, struct.pack("<16B", *p["harmonic_widths"]), None, None))
        out.append((3, struct.pack("<16B", *p["harmonic_types"]), None, None))
    elif t == "Fmx":
        out.append((0, struct.pack("<256f", *p["custom_waveform"]), None, None))
    elif t in ("Generator", "AnalogGenerator"):
        dw = p["drawn_waveform"]
        is_default = [x & 0xFF for x in dw["samples"]] == DRAWN_DEFAULT
        if not (is_default and "drawn_waveform" in var.drop):
            out.append((0, bytes(x & 0xFF for x in dw["samples"]), 1, None if "CHFR" in var.drop else 44100))
        if opt:
            out.append(opt)
    elif t == "VorbisPlayer":
        out.append((0, bytes.fromhex(p["data"]["__bytes__"]), None, None))
    elif t == "MetaModule":
        inner = chunktools.build([(b"SVOX", b"")] + encode_project_chunks(p["project"], var_inner(var)))
        out.append((0, inner, None, None))
        out.append((1, b"".join(struct.pack("<HH", *x) for x in p["mappings"]), None, None))
        out.append(opt)
        for i, lab in enumerate(p["labels"]):
            if lab is not None:
                out.append((8 + i, enc_cstr(lab), None, None))
    elif t == "Sampler":
        out += encode_sampler(mt, m, var)
    elif opt:
        out.append(opt)
    return [x for x in out if x is not None]


def var_inner(var):
    v = Variations(vers=var.inner_vers or var.vers, options_pad64=var.options_pad64)
    return v


def encode_sampler(mt, m, var):
    p = m["payload"]
    rec = bytearray(400)
    struct.pack_into("<I", rec, 0, p["unused1"])
    nm = bytes.fromhex(p["instrument_name"]["__bytes__"])[:22]
    rec[4 : 4 + len(nm)] = nm
    present = [i for i, s in enumerate(p["samples"]) if s is not None]
    struct.pack_into("<HHH", rec, 0x1A, p["unused2"], (present[-1] + 1) if present else 0, p["unused3"])
    struct.pack_into("<I", rec, 0x20, p["unused4"])
    rec[0x24 : 0x24 + 96] = bytes(p["note_samples"][:96])
    struct.pack_into("<BBBB", rec, 0xEE, p["vibrato_type"][1], p["vibrato_attack"], p["vibrato_depth"], p["vibrato_rate"])
    struct.pack_into("<H", rec, 0xF2, p["volume_fadeout"])
    struct.pack_into("<BbBb", rec, 0xF4, p["volume_old"], p["ins_finetune"], p["unused5"], p["ins_relative_note"])
    struct.pack_into("<I", rec, 0xF8, p["unused6"])
    rec[0xFC:0x100] = b"PMAS"
    struct.pack_into("<I", rec, 0x100, p["version"])
    rec[0x104 : 0x104 + 119] = bytes(p["note_samples"])
    struct.pack_into("<Iii", rec, 0x184, p["max_version"], p["editor_cursor"], p["editor_selected_size"])
    out = [(0, bytes(rec), None, None)]
    for i, s in enumerate(p["samples"]):
        if s is None:
            continue
        data = bytes.fromhex(s["data"]["__bytes__"])
        fmt, ch = s["format"][1], s["channels"][1]
        fsz = fmt * (2 if ch else 1)
        meta = bytearray(44)
        struct.pack_into("<III", meta, 0, len(data) // fsz, s["loop_start"], s["loop_len"])
        typ = s["loop_type"][1] | (4 if s["loop_sustain"] else 0) | {1: 0x00, 2: 0x10, 4: 0x20}[fmt] | (0x40 if ch else 0)
        struct.pack_into("<BbBBbB", meta, 0xC, s["volume"], s["finetune"], typ, s["panning"] + 128, s["relative_note"], s["reserved2"])
        nmb = bytes.fromhex(s["name"]["__bytes__"])[:22]
        meta[0x12 : 0x12 + len(nmb)] = nmb
        struct.pack_into("<I", meta, 0x28, s["start_pos"])
        out.append((2 * i + 1, bytes(meta), None, None))
        out.append((2 * i + 2, data, fmt | ch, s["rate"]))
    out.append((mt.options_chnm, options_bytes(mt, m["options"], var.options_pad64), None, None))
    out.append((0x102, encode_envelope(p["volume_envelope"], 0), None, None))
    out.append((0x103, encode_envelope(p["panning_envelope"], -0x4000), None, None))
    out.append((0x104, encode_envelope(p["pitch_envelope"], -0x4000), None, None))
    for j in range(4):
        out.append((0x105 + j, encode_envelope(p["effect_control_envelopes"][j], 0), None, None))
    if p["effect"] is not None:
        eff = chunktools.build([(b"SSYN", b""), (b"VERS", enc_version(var_inner(var).vers))] + encode_module_chunks(p["effect"]["module"], False, var_inner(var), 1) + [(b"SEND", b"")])
        out.append((0x10A, eff, None, None))
    return out
