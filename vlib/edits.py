"""Attribute catalogue of loaded objects: enumerate editable serialized attributes, draw an
in-domain new value, apply it through the public setter, read it back, and say which
snapshot paths the edit is allowed to change (the edited path + declared couplings)."""

from __future__ import annotations

from hypothesis import strategies as st

from vlib import build, specmodel
from vlib import strategies as vs

COMMON_SNAP = {"mod_finetune": "finetune", "mod_relative_note": "relative_note", "mod_scale": "scale"}
SYNTH_ABSENT = ("x", "y", "layer", "visualization")


def spec_of(mod):
    return specmodel.by_mtype().get(mod.mtype)


def current_unit(mod, c):
    u = getattr(mod, c.depends_on)
    return u.name


# ---------------------------------------------------------------------------------------
# drawing one concrete edit for a loaded object


@st.composite
def draw_module_edit(draw, mod, in_project, depth=0, focus=False):
    """Returns an edit list without the module locator: [kind, ...]."""
    mt = spec_of(mod)
    tname = type(mod).__name__
    kinds = ["common"] * 2
    attached = [c for c in mt.controllers] if mt else []
    if attached:
        kinds += ["ctl"] * 4 + ["cmid"]
    if mt and mt.options:
        kinds += ["opt"] * 2
    if tname in ("MultiSynth", "WaveShaper", "MultiCtl", "SpectraVoice", "Fmx", "Generator", "AnalogGenerator", "VorbisPlayer", "Sampler", "MetaModule"):
        kinds += ["pay"] * (24 if focus else 4)
    k = draw(st.sampled_from(kinds))
    if k == "common":
        strat = build.common_fields(in_project)
        fields = draw(strat.filter(lambda d: len(d) >= 1))
        name = draw(st.sampled_from(sorted(fields)))
        if tname == "Output" and name == "name":
            name = "mod_finetune"
            fields[name] = draw(vs.i32())
        return ["mc", name, fields[name]]
    if k == "ctl":
        c = draw(st.sampled_from(attached))
        if c.kind == "dependent":
            v = draw(vs.ctl_values(c, current_unit(mod, c)))
        else:
            v = draw(vs.ctl_values(c))
        return ["ctl", c.name, v]
    if k == "cmid":
        c = draw(st.sampled_from(attached))
        return ["cmid", c.name, draw(build.cmid_entry)]
    if k == "opt":
        o = draw(st.sampled_from(mt.options))
        if o.size == 1:
            v = draw(st.booleans())
        elif o.min is not None:
            v = draw(st.integers(o.min, o.max))
        else:
            v = draw(st.integers(0, (1 << o.size) - 1))
        return ["opt", o.name, v]
    return ["pay"] + draw(draw_payload_edit(mod, tname, depth))


@st.composite
def draw_payload_edit(draw, mod, tname, depth):
    u8 = st.integers(0, 255)
    u16 = vs.edge_int(0, 65535)
    # every fourth array edit assigns a whole new list object to .values instead of writing one element
    whole = draw(st.integers(0, 3)) == 0
    if tname == "MultiSynth":
        a = draw(st.sampled_from(["nv_curve", "vv_curve", "np_curve"]))
        n = len(getattr(mod, a).values)
        if whole:
            return ["arr_whole", a, draw(st.lists(u16 if a == "np_curve" else u8, min_size=n, max_size=n))]
        return [draw(st.sampled_from(["arr", "arr", "arr_rebound"])), a, draw(st.integers(0, n - 1)), draw(u16 if a == "np_curve" else u8)]
    if tname == "WaveShaper":
        if whole:
            return ["arr_whole", "curve", draw(st.lists(u16, min_size=256, max_size=256))]
        return [draw(st.sampled_from(["arr", "arr", "arr_rebound"])), "curve", draw(st.integers(0, 255)), draw(u16)]
    if tname == "MultiCtl":
        if whole:
            return ["arr_whole", "curve", draw(st.lists(vs.edge_int(0, 0x8000), min_size=257, max_size=257))]
        if draw(st.booleans()):
            return ["arr", "curve", draw(st.integers(0, 256)), draw(vs.edge_int(0, 0x8000))]
        return ["mcmap", draw(st.integers(0, 15)), draw(st.sampled_from(["min", "max", "controller", "flags", "future_use2", "future_use5"])), draw(vs.u32())]
    if tname == "SpectraVoice":
        f = draw(st.sampled_from(["freq_hz", "volume", "width", "type"]))
        v = draw(u16 if f == "freq_hz" else st.integers(0, 18) if f == "type" else u8)
        if draw(st.integers(0, 2)) == 0:
            # the table object itself is replaced first (a copy of it, as when a table is taken over
            # from another module), then one harmonic is set through the per-harmonic view
            return ["harm_rebound", draw(st.integers(0, 15)), f, v]
        return ["harm", draw(st.integers(0, 15)), f, v]
    if tname == "Fmx":
        return ["arr", "custom_waveform", draw(st.integers(0, 255)), draw(build.f32)]
    if tname in ("Generator", "AnalogGenerator"):
        return ["wave", draw(st.integers(0, 31)), draw(st.integers(-128, 127))]
    if tname == "VorbisPlayer":
        return ["vdata", draw(st.binary(max_size=64)).hex()]
    if tname == "Sampler":
        cls = type(mod)
        present = [i for i, s in enumerate(mod.samples) if s is not None]
        kinds = ["s_field"] * 2 + ["s_map", "s_map_tail", "s_env", "s_point", "s_sample_new", "s_env_whole", "s_ece_list_whole"]
        if present:
            kinds += ["s_sample_field"] * 3 + ["s_sample_del", "s_sample_alias"]
        if mod.effect is not None and depth < 2:
            kinds += ["effect"] * 2
        kinds += ["s_effect_new"]
        k = draw(st.sampled_from(kinds))
        if k == "s_field":
            fields = draw(build.sampler_payload(0))["fields"]
            if not fields:
                fields = {"editor_cursor": draw(vs.i32())}
            name = draw(st.sampled_from(sorted(fields)))
            return ["s_field", name, fields[name]]
        if k == "s_map":
            return ["s_map", draw(st.integers(0, 118)), draw(u8)]
        if k == "s_map_tail":
            # re-map (or un-map: 0) every note from a start note upwards
            return ["s_map_tail", draw(st.one_of(st.sampled_from([0, 1, 48, 95, 96, 118]), st.integers(0, 118))), draw(st.sampled_from([0, 0, 1, 255]))]
        which = draw(st.sampled_from(["volume", "panning", "pitch", "fx0", "fx1", "fx2", "fx3"]))
        narrow = which in ("volume", "panning")
        lo, hi = (0, 0x8000) if which in ("volume", "fx0", "fx1", "fx2", "fx3") else (-0x4000, 0x4000)
        if k == "s_env_whole":
            # a new envelope object is assigned in place of the loaded one
            return ["s_env_whole", which, draw(build.envelope(lo, hi, narrow))]
        if k == "s_ece_list_whole":
            return ["s_ece_list_whole", [draw(build.envelope(0, 0x8000, False)) for _ in range(4)]]
        if k == "s_env":
            f = draw(st.sampled_from(["enable", "sustain", "loop", "ctl_index", "gain_pct", "velocity", "sustain_point", "loop_start_point", "loop_end_point"]))
            if f in ("enable", "sustain", "loop"):
                v = draw(st.booleans())
            elif f in ("ctl_index", "gain_pct", "velocity"):
                v = draw(u8)
            else:
                v = draw(vs.edge_int(0, 255 if narrow else 65535))
            return ["s_env", which, f, v]
        if k == "s_point":
            env = envelope_of(mod, which)
            n = len(env.points)
            pos = draw(st.one_of(st.just("append"), st.integers(0, n - 1))) if n and not (narrow and n >= 200) else ("append" if not (narrow and n >= 200) else 0)
            return ["s_point", which, pos, [draw(u16), draw(vs.edge_int(lo, hi))]]
        if k == "s_sample_new":
            return ["s_sample_new", draw(st.one_of(st.sampled_from([0, 1, 127]), st.integers(0, 127))), draw(build.sample())]
        if k == "s_sample_field":
            sd = draw(build.sample())
            f = draw(st.sampled_from(sorted(sd)))
            return ["s_sample_field", draw(st.sampled_from(present)), f, sd[f]]
        if k == "s_sample_del":
            return ["s_sample_del", draw(st.sampled_from(present))]
        if k == "s_sample_alias":
            # one recording layered into a further slot: the very same Sample object sits in both
            return ["s_sample_alias", draw(st.one_of(st.sampled_from([0, 1, 127]), st.integers(0, 127))), draw(st.sampled_from(present))]
        if k == "s_effect_new":
            return ["s_effect_new", draw(build.module_spec(in_project=False, depth=0, types=build.LIGHT_TYPES))]
        return ["effect"] + draw(draw_module_edit(mod.effect.module, False, depth + 1))
    if tname == "MetaModule":
        n = mod.user_defined_controllers
        kinds = ["m_count", "m_map"]
        if n:
            kinds += ["m_label"] * 2
        if depth < 2:
            kinds += ["embedded"] * 4
        kinds += ["m_project_whole"]
        users = user_value_targets(mod) if depth == 0 else []
        if users:
            kinds += ["m_user"] * 3
        k = draw(st.sampled_from(kinds))
        if k == "m_user":
            # the value of an exposed user-defined controller, assigned under its own name or under the
            # alias derived from its label; it is also what the mapped embedded controller receives
            i, alias, tmi, tname, c = draw(st.sampled_from(users))
            how = draw(st.sampled_from(["direct", "alias"])) if alias else "direct"
            return ["m_user", i, alias if how == "alias" else None, draw(vs.edge_int(c.min, c.max)), tmi, c.name, c.min]
        if k == "m_project_whole":
            # the embedded project is replaced by another Project object holding the same content (its own clone)
            return ["m_project_whole"]
        if k == "m_count":
            return ["m_count", draw(st.one_of(st.sampled_from([0, 1, 27, 96]), st.integers(0, 96)))]
        if k == "m_map":
            i, mi, ci = draw(st.integers(0, 95)), draw(u16), draw(u16)
            # precondition of the library (outside every listed property): an *exposed* user controller
            # keeps its stored number when its mapping is changed; re-pointing it at an enumerated
            # controller would write a file whose value is no member of the enumeration, which the
            # reader refuses by design.  Such re-mappings go to a module that does not exist instead.
            if i < n and 0 < mi < len(mod.project.modules) and mod.project.modules[mi] is not None:
                mt = specmodel.by_mtype().get(mod.project.modules[mi].mtype)
                if mt is not None and ci < len(mt.controllers) and mt.controllers[ci].kind in ("enum", "bool"):
                    mi = 0xFFF0
            return ["m_map" if draw(st.booleans()) else "m_map_inplace", i, mi, ci]
        if k == "m_label":
            return ["m_label", draw(st.integers(0, min(n, 96) - 1)), draw(st.one_of(vs.text_no_nul(10), vs.text_no_nul(10), vs.long_text()))]
        return ["embedded"] + draw(draw_edit(mod.project, depth + 1).filter(lambda e: not live_propagation_hazard(mod, e)))
    raise AssertionError(tname)


def user_value_targets(meta):
    """[(index, alias or None, embedded module index, its type, controller spec)] for the exposed
    user-defined controllers of a *loaded* MetaModule whose mapping names a ranged controller of an
    existing embedded module.  (On constructed MetaModules, and for mappings next to each other,
    assignments run into the library's inconsistent live propagation - see live_propagation_hazard.)"""
    import re

    if getattr(meta.project, "metamodule", None) is not None:
        return []
    spec = specmodel.by_mtype()
    n = meta.user_defined_controllers
    maps = [(mp.module, mp.controller) for mp in meta.mappings.values]
    labels = [meta.user_defined[i].label for i in range(min(n, 96))]
    out = []
    for i in range(min(n, 96)):
        mi, ci = maps[i]
        if not (0 < mi < len(meta.project.modules)) or meta.project.modules[mi] is None:
            continue
        target = meta.project.modules[mi]
        mt = spec.get(target.mtype)
        if mt is None or mt.cls_name == "MetaModule" or ci >= len(mt.controllers):
            continue
        c = mt.controllers[ci]
        if c.kind not in ("range", "compact"):
            continue
        if maps.count((mi, ci)) != 1 or (mi, ci + 1) in maps or (mi, ci - 1) in maps:
            continue
        # the controller must already have taken over its target's range (it does so when the file is
        # loaded; a controller exposed or re-mapped since then still has its placeholder range until the
        # program calls update_user_defined_controllers)
        vt = meta.user_defined[i].value_type
        if (getattr(vt, "min", None), getattr(vt, "max", None)) != (c.min, c.max):
            continue
        t = labels[i]
        alias = None
        if t and re.fullmatch(r"[a-z]{2,12}", t) and labels.count(t) == 1 and not any(o and o != t and t in o.lower() for o in labels):
            alias = "u_" + t
            if alias in type(meta).__dict__ or alias in meta.__dict__:
                alias = None
        out.append((i, alias, mi, mt.cls_name, c))
    return out


def live_propagation_hazard(meta, inner):
    """Implicit precondition of the library, outside every listed property: on a *constructed*
    MetaModule (embedded project with a back-reference), assigning an embedded controller whose
    (module index, controller number) equals some mapping entry is forwarded to the user-defined
    controller and from there back down into the controller at that 0-based *index* (the two
    directions use different index conventions), which raises or alters an unrelated controller.
    Such edits are not generated (counted by the callers through Hypothesis' filter statistics)."""
    if getattr(meta.project, "metamodule", None) is None:
        return False
    if inner[0] != "mod" or inner[2] != "ctl":
        return False
    target = meta.project.modules[inner[1]]
    if target is None:
        return False
    names = list(target.controllers)
    if inner[3] not in names:
        return False
    if type(target).__name__ == "MultiCtl":
        # the same, one step removed: a MultiCtl inside the embedded project assigns controllers of the modules it
        # feeds; if one of those modules is named by a mapping the assignment travels up and down in the same way
        fed = {x for x in target.out_links if x != -1}
        if any(mp.module in fed for mp in meta.mappings.values):
            return True
    number = names.index(inner[3]) + 1
    return any(mp.module == inner[1] and mp.controller == number for mp in meta.mappings.values)


def envelope_of(mod, which):
    if which == "volume":
        return mod.volume_envelope
    if which == "panning":
        return mod.panning_envelope
    if which == "pitch":
        return mod.pitch_envelope
    return mod.effect_control_envelopes[int(which[2])]


@st.composite
def draw_edit(draw, obj, depth=0, focus=False):
    """Concrete edit for a loaded Project or Synth."""
    if type(obj).__name__ == "Synth":
        return ["mod", -1] + draw(draw_module_edit(obj.module, False, depth, focus))
    p = obj
    mods = [i for i, m in enumerate(p.modules) if m is not None]
    pats = [i for i, x in enumerate(p.patterns) if x is not None]
    kinds = ["pf"] + ["mod"] * 5
    if pats:
        kinds += ["pat"] * 2
    k = draw(st.sampled_from(kinds))
    containers = [i for i in mods if type(p.modules[i]).__name__ in ("MetaModule", "Sampler")]
    if focus and containers:
        # concentrate on the type-specific payload of the container modules the project holds
        mi = draw(st.sampled_from(containers))
        return ["mod", mi] + draw(draw_module_edit(p.modules[mi], True, depth, True))
    if k == "pf":
        name = draw(st.sampled_from(sorted(build.PROJECT_FIELD_STRATS)))
        return ["pf", name, draw(build.PROJECT_FIELD_STRATS[name])]
    if k == "mod":
        mi = draw(st.sampled_from(mods))
        return ["mod", mi] + draw(draw_module_edit(p.modules[mi], True, depth))
    pi = draw(st.sampled_from(pats))
    pat = p.patterns[pi]
    if type(pat).__name__ == "PatternClone":
        f = draw(st.sampled_from(["source", "flags_PFFF", "x", "y"]))
        v = draw(vs.u32() if f in ("source", "flags_PFFF") else vs.i32())
        return ["clonef", pi, f, v]
    if draw(st.booleans()):
        ps = draw(build.pattern_spec().filter(lambda s: s is not None and s["kind"] == "pattern" and s["fields"]))
        f = draw(st.sampled_from(sorted(ps["fields"])))
        return ["patf", pi, f, ps["fields"][f]]
    return ["cell", pi, draw(st.integers(0, pat.lines - 1)), draw(st.integers(0, pat.tracks - 1)), draw(build.cell)]


# ---------------------------------------------------------------------------------------
# applying / reading back


def locate_module(obj, mi):
    return obj.module if mi == -1 else obj.modules[mi]


def lib_val(mod, name, v):
    return build.lib_value(type(mod), name, v)


def apply_module_edit(mod, e):
    from rv.api import Synth
    from rv.cmidmap import MidiMessageType, Slope

    k = e[0]
    cls = type(mod)
    if k == "mc":
        v = tuple(e[2]) if e[1] == "color" else e[2]
        setattr(mod, e[1], v)
    elif k == "ctl":
        setattr(mod, e[1], lib_val(mod, e[1], e[2]))
    elif k == "opt":
        setattr(mod, e[1], e[2])
    elif k == "cmid":
        mm = mod.controller_midi_maps[e[1]]
        t, ch, sl, par = e[2]
        mm.message_type, mm.channel, mm.slope, mm.message_parameter = MidiMessageType(t), ch, Slope(sl), par
    elif k == "pay":
        s = e[1]
        if s == "arr":
            getattr(mod, e[2]).values[e[3]] = e[4]
        elif s == "arr_whole":
            getattr(mod, e[2]).values = list(e[3])
        elif s == "arr_rebound":
            import copy

            setattr(mod, e[2], copy.deepcopy(getattr(mod, e[2])))
            getattr(mod, e[2]).values[e[3]] = e[4]
        elif s == "s_env_whole":
            old = envelope_of(mod, e[2])
            new = type(old)(old.chnm) if e[2].startswith("fx") else type(old)()
            build.apply_envelope(new, e[3])
            if e[2].startswith("fx"):
                mod.effect_control_envelopes[int(e[2][2])] = new
            else:
                setattr(mod, e[2] + "_envelope", new)
        elif s == "s_ece_list_whole":
            news = []
            for old, d in zip(mod.effect_control_envelopes, e[2]):
                new = type(old)(old.chnm)
                build.apply_envelope(new, d)
                news.append(new)
            mod.effect_control_envelopes = news
        elif s == "mcmap":
            setattr(mod.mappings.values[e[2]], e[3], e[4])
        elif s in ("harm", "harm_rebound"):
            if s == "harm_rebound":
                import copy

                attr = {"freq_hz": "harmonic_freqs", "volume": "harmonic_volumes", "width": "harmonic_widths", "type": "harmonic_types"}[e[3]]
                setattr(mod, attr, copy.deepcopy(getattr(mod, attr)))
            v = cls.HarmonicType(e[4]) if e[3] == "type" else e[4]
            setattr(mod.harmonics[e[2]], e[3], v)
        elif s == "wave":
            mod.drawn_waveform.samples[e[2]] = e[3]
        elif s == "vdata":
            mod.data = bytes.fromhex(e[2])
        elif s == "s_field":
            v = e[3]
            if e[2] == "vibrato_type":
                v = getattr(cls.VibratoType, v)
            elif e[2] == "instrument_name":
                v = bytes.fromhex(v)
            setattr(mod, e[2], v)
        elif s == "s_map":
            key = list(mod.note_samples.keys())[e[2]]
            mod.note_samples[key] = e[3]
        elif s == "s_map_tail":
            for key in list(mod.note_samples.keys())[e[2] :]:
                mod.note_samples[key] = e[3]
        elif s == "s_env":
            setattr(envelope_of(mod, e[2]), e[3], e[4])
        elif s == "s_point":
            env = envelope_of(mod, e[2])
            if e[3] == "append":
                env.points.append(tuple(e[4]))
            else:
                env.points[e[3]] = tuple(e[4])
        elif s == "s_sample_new":
            mod.samples[e[2]] = build.make_sample(cls, e[3])
        elif s == "s_sample_field":
            smp = mod.samples[e[2]]
            f, v = e[3], e[4]
            if f == "data":
                smp.data = bytes.fromhex(v)
            elif f == "name":
                smp.name = bytes.fromhex(v)
            elif f == "format":
                smp.format = getattr(cls.Format, v)
            elif f == "channels":
                smp.channels = getattr(cls.Channels, v)
            elif f == "loop_type":
                smp.loop_type = getattr(cls.LoopType, v)
            else:
                setattr(smp, f, v)
        elif s == "s_sample_alias":
            mod.samples[e[2]] = mod.samples[e[3]]
        elif s == "s_sample_del":
            mod.samples[e[2]] = None
        elif s == "s_effect_new":
            mod.effect = Synth(build.make_module(e[2]))
        elif s == "effect":
            apply_module_edit(mod.effect.module, e[2:])
        elif s == "m_project_whole":
            mod.project = mod.project.clone()
        elif s == "m_user":
            setattr(mod, e[3] or "user_defined_%d" % (e[2] + 1), e[4])
        elif s == "m_count":
            mod.user_defined_controllers = e[2]
        elif s == "m_map":
            mod.mappings.values[e[2]] = cls.Mapping((e[3], e[4]))
        elif s == "m_map_inplace":
            # the other usual way: the Mapping item that is there is given new numbers
            mp = mod.mappings.values[e[2]]
            mp.module, mp.controller = e[3], e[4]
        elif s == "m_label":
            mod.user_defined[e[2]].label = e[3]
        elif s == "embedded":
            apply_edit(mod.project, e[2:])
        else:
            raise AssertionError(e)
    else:
        raise AssertionError(e)


def apply_edit(obj, e):
    from rv.api import NOTECMD

    k = e[0]
    if k == "pf":
        v = tuple(e[2]) if e[1] == "based_on_version" else e[2]
        setattr(obj, e[1], v)
    elif k == "mod":
        apply_module_edit(locate_module(obj, e[1]), e[2:])
    elif k == "clonef":
        setattr(obj.patterns[e[1]], e[2], e[3])
    elif k == "patf":
        v = e[3]
        if e[2] == "icon":
            v = bytes.fromhex(v)
        elif e[2] in ("fg_color", "bg_color"):
            v = tuple(v)
        setattr(obj.patterns[e[1]], e[2], v)
    elif k == "cell":
        n = obj.patterns[e[1]].data[e[2]][e[3]]
        c = e[4]
        n.note, n.vel, n.module, n.ctl, n.val = NOTECMD(c[0]), c[1], c[2], c[3], c[4]
    else:
        raise AssertionError(e)


# ---------------------------------------------------------------------------------------
# which snapshot paths may change, and where the new value must show


def module_paths(mod, e, base):
    """(primary path, expected snapshot value or NOCHECK, allowed extra prefixes)"""
    from vlib import snapshot

    NOCHECK = module_paths.NOCHECK
    k = e[0]
    mt = spec_of(mod)
    if k == "mc":
        name = e[1]
        sn = COMMON_SNAP.get(name, name)
        v = e[2]
        if name == "name":
            v = snapshot.trunc_name(v)
        elif name == "flags":
            v = (v | type(mod).default_flags) & 0xFFFFFFFF
        elif name == "midi_in_always":
            v = int(v)
        elif name == "midi_out_name":
            v = v or None
        return base + "/" + sn, v, []
    if k == "ctl":
        c = mt.ctl(e[1])
        v = e[2]
        if c.kind == "enum":
            v = [c.enum, c.members[v[1]]]
        elif c.kind == "bool":
            v = int(v)
        extra = []
        if type(mod).__name__ == "MultiCtl" and e[1] == "value":
            extra = ["/modules/*/controllers"]
        return base + "/controllers/" + e[1], v, extra
    if k == "opt":
        o = next(x for x in mt.options if x.name == e[1])
        v = int(e[2])
        extra = [base + "/options/" + p for p in o.exclusive_of]
        if e[1] == "user_defined_controllers":
            extra += [base + "/payload/" + x for x in ("count", "attached", "labels", "stored_values")] + [base + "/cmid/user_defined_"]
        return base + "/options/" + e[1], v, extra
    if k == "cmid":
        return base + "/cmid/" + e[1], list(e[2]), []
    s = e[1]
    pb = base + "/payload"
    if s == "arr":
        return "%s/%s/%d" % (pb, e[2], e[3]), e[4], []
    if s == "mcmap":
        idx = ["min", "max", "controller", "flags", "future_use2", "future_use3", "future_use4", "future_use5"].index(e[3])
        return "%s/mappings/%d/%d" % (pb, e[2], idx), e[4], []
    if s in ("harm", "harm_rebound"):
        col = {"freq_hz": ("harmonic_freqs", 0), "volume": ("harmonic_volumes", 1), "width": ("harmonic_widths", 2), "type": ("harmonic_types", 3)}[e[3]]
        return "%s/%s/%d" % (pb, col[0], e[2]), e[4], ["%s/harmonics/%d/%d" % (pb, e[2], col[1])]
    if s == "wave":
        return "%s/drawn_waveform/samples/%d" % (pb, e[2]), e[3], []
    if s == "vdata":
        return pb + "/data", {"__bytes__": e[2]}, []
    if s == "s_field":
        v = e[3]
        if e[2] == "vibrato_type":
            v = ["VibratoType", ["sin", "saw", "square"].index(v)]
        elif e[2] == "instrument_name":
            v = {"__bytes__": e[3]}
        return pb + "/" + e[2], v, []
    if s == "s_map":
        return "%s/note_samples/%d" % (pb, e[2]), e[3], []
    if s == "s_map_tail":
        return "%s/note_samples/%d" % (pb, e[2]), e[3], ["%s/note_samples" % pb]
    envkey = lambda w: {"volume": "volume_envelope", "panning": "panning_envelope", "pitch": "pitch_envelope"}.get(w) or "effect_control_envelopes/%s" % w[2]  # noqa: E731
    if s == "arr_whole":
        return "%s/%s" % (pb, e[2]), list(e[3]), []
    if s == "arr_rebound":
        return "%s/%s/%d" % (pb, e[2], e[3]), e[4], []
    if s == "s_env_whole":
        return "%s/%s" % (pb, envkey(e[2])), NOCHECK, []
    if s == "s_ece_list_whole":
        return "%s/effect_control_envelopes" % pb, NOCHECK, []
    if s == "s_env":
        v = int(e[4]) if isinstance(e[4], bool) else e[4]
        return "%s/%s/%s" % (pb, envkey(e[2]), e[3]), v, []
    if s == "s_point":
        env = envelope_of(mod, e[2])
        idx = len(env.points) if e[3] == "append" else e[3]
        return "%s/%s/points/%d" % (pb, envkey(e[2]), idx), list(e[4]), ["%s/%s/points/#len" % (pb, envkey(e[2]))]
    if s in ("s_sample_new", "s_sample_del", "s_sample_alias"):
        return "%s/samples/%d" % (pb, e[2]), NOCHECK, []
    if s == "s_sample_field":
        f, v = e[3], e[4]
        if f in ("data", "name"):
            v = {"__bytes__": v}
        elif f == "format":
            v = ["Format", {"int8": 1, "int16": 2, "float32": 4}[v]]
        elif f == "channels":
            v = ["Channels", {"mono": 0, "stereo": 8}[v]]
        elif f == "loop_type":
            v = ["LoopType", {"off": 0, "forward": 1, "ping_pong": 2}[v]]
        elif f == "loop_sustain":
            v = int(v)
        # a Sample object that sits in several slots (put there by an earlier `s_sample_alias` edit or by the
        # recipe) shows the assignment in each of them
        twins = ["%s/samples/%d/%s" % (pb, j, f) for j, x in enumerate(mod.samples) if j != e[2] and x is not None and x is mod.samples[e[2]]]
        return "%s/samples/%d/%s" % (pb, e[2], f), v, twins
    if s == "s_effect_new":
        return pb + "/effect", NOCHECK, []
    if s == "effect":
        return module_paths(mod.effect.module, e[2:], pb + "/effect/module")
    if s == "m_project_whole":
        return pb + "/project", NOCHECK, []
    if s == "m_user":
        raw = e[4] - e[7] if e[7] < 0 else e[4]
        return "%s/stored_values/%d" % (pb, e[2]), raw, ["%s/project/modules/%d/controllers/%s" % (pb, e[5], e[6])]
    if s == "m_count":
        return base + "/options/user_defined_controllers", e[2], [pb + "/" + x for x in ("count", "attached", "labels", "stored_values")] + [base + "/cmid/user_defined_"]
    if s in ("m_map", "m_map_inplace"):
        return "%s/mappings/%d" % (pb, e[2]), [e[3], e[4]], []
    if s == "m_label":
        return "%s/labels/%d" % (pb, e[2]), e[3], []
    if s == "embedded":
        prim, v, extra = edit_paths(mod.project, e[2:], pb + "/project")
        return prim, v, extra + [pb + "/stored_values"]
    raise AssertionError(e)


class _NoCheck:
    def __repr__(self):
        return "<nocheck>"


module_paths.NOCHECK = _NoCheck()


def edit_paths(obj, e, base=""):
    from vlib import snapshot

    k = e[0]
    if k == "pf":
        v = e[2]
        return base + "/" + e[1], v, []
    if k == "mod":
        mod = locate_module(obj, e[1])
        mb = base + ("/module" if e[1] == -1 else "/modules/%d" % e[1])
        prim, v, extra = module_paths(mod, e[2:], mb)
        extra = [x.replace("/modules/*", base + "/modules/*") if x.startswith("/modules/*") else x for x in extra]
        return prim, v, extra
    if k == "clonef":
        return "%s/patterns/%d/%s" % (base, e[1], e[2]), e[3], []
    if k == "patf":
        v = e[3]
        if e[2] == "icon":
            v = {"__bytes__": v}
        return "%s/patterns/%d/%s" % (base, e[1], e[2]), v, []
    if k == "cell":
        return "%s/patterns/%d/data/%d/%d" % (base, e[1], e[2], e[3]), list(e[4]), []
    raise AssertionError(e)


def path_allowed(path, primary, extra):
    if path == primary or path.startswith(primary + "/"):
        return True
    for x in extra:
        if "*" in x:
            pre, post = x.split("*", 1)
            if path.startswith(pre):
                rest = path[len(pre) :]
                seg, _, tail = rest.partition("/")
                if ("/" + tail).startswith(post):
                    return True
        elif path == x or path.startswith(x + "/") or (x.endswith("_") and path.startswith(x)):
            return True
    return False


def get_path(snap, path):
    cur = snap
    for seg in path.strip("/").split("/"):
        if isinstance(cur, list):
            if seg == "#len":
                return len(cur)
            i = int(seg)
            if i >= len(cur):
                return module_paths.NOCHECK
            cur = cur[i]
        elif isinstance(cur, dict):
            if seg not in cur:
                return module_paths.NOCHECK
            cur = cur[seg]
        else:
            return module_paths.NOCHECK
    return cur
