"""Unrelated, legal use of the library between the cases of a check.

Every listed property is quantified over inputs *and* over whatever else the process has
done before: nothing an earlier, independent use of the library did may change the outcome
of a later case.  `step(i)` performs one small, deterministic piece of in-domain API usage
(round-robin over OPS); it is not an oracle - its own results are ignored - but any
process-wide / class-level state it leaves behind is then seen by the check's oracle.
"""

from __future__ import annotations

from io import BytesIO


def _legacy_version_load():
    from rv.api import NOTECMD, Pattern, Project, m, read_sunvox_file

    p = Project()
    p.sunvox_version = (1, 9, 4, 0)
    p.new_module(m.Generator)
    pat = Pattern(tracks=2, lines=2)
    p.attach_pattern(pat)
    pat.data[0][0].note = NOTECMD.C4
    pat.data[0][0].module = 0x0102
    read_sunvox_file(BytesIO(p.read()))
    mm = m.MetaModule()
    mm.project.sunvox_version = (1, 6, 0, 0)
    mm.project.attach_pattern(Pattern(tracks=1, lines=1))
    mm.clone()


def _fixtures():
    import glob
    import os

    from rv.api import read_sunvox_file
    from vlib.harness import REPO

    for f in sorted(glob.glob(os.path.join(REPO, "tests", "files", "**", "*.sun*"), recursive=True))[::5]:
        read_sunvox_file(f).read()


def _metamodule_mapped():
    from rv.api import Project, Synth, m, read_sunvox_file

    mm = m.MetaModule()
    mm.project.new_module(m.Amplifier, balance=-7)
    mm.project.new_module(m.AnalogGenerator)
    mm.project.new_module(m.Lfo)
    mm.mappings.values[0] = mm.Mapping((1, 1))  # Amplifier.balance, -128..128
    mm.mappings.values[1] = mm.Mapping((2, 1))  # AnalogGenerator.waveform, enum
    mm.mappings.values[2] = mm.Mapping((3, 2))  # Lfo.freq, unit dependent
    mm.mappings.values[3] = mm.Mapping((1, 8))  # Amplifier.bipolar_dc_offset
    mm.user_defined_controllers = 4
    mm.update_user_defined_controllers()
    back = read_sunvox_file(BytesIO(Synth(mm).read())).module
    back.user_defined_controllers = 1
    back.user_defined_controllers = 0
    p = Project()
    p.attach_module(back)
    read_sunvox_file(BytesIO(p.read()))
    mm.user_defined_controllers = 2
    mm.user_defined_controllers = 0
    # mappings are re-pointed and cleared again, and the value types re-derived each time
    m2 = m.MetaModule()
    m2.project.new_module(m.Amplifier)
    m2.project.new_module(m.Lfo)
    m2.user_defined_controllers = 3
    for target in ((1, 1), (0, 0), (2, 2), (9, 9), (1, 8), (1, 99), (1, 2), (0, 0), (2, 0)):
        for i in range(3):
            m2.mappings.values[i] = m2.Mapping(target)
        m2.update_user_defined_controllers()
    m2.clone()


def _nested_metamodule():
    from rv.api import Synth, m, read_sunvox_file

    inner = m.MetaModule()
    inner.project.new_module(m.Generator, panning=-100)
    inner.mappings.values[0] = inner.Mapping((1, 2))  # Generator.panning
    inner.user_defined_controllers = 1
    outer = m.MetaModule()
    outer.project.attach_module(inner)
    outer.mappings.values[0] = outer.Mapping((1, 5))  # inner.user_defined_1
    outer.user_defined_controllers = 1
    o = read_sunvox_file(BytesIO(Synth(outer).read())).module
    o.clone()


def _curves_scribbled():
    from rv.api import Synth, m

    for cls, attr in ((m.MultiCtl, "curve"), (m.MultiSynth, "nv_curve"), (m.MultiSynth, "np_curve"), (m.WaveShaper, "curve"), (m.Fmx, "custom_waveform")):
        a = cls()
        Synth(a).read()
        vals = getattr(a, attr).values
        for i in range(0, len(vals), 7):
            vals[i] = 1 if attr != "custom_waveform" else 0.5
        vals.reverse()
        Synth(a).read()
        a.clone()
    sv = m.SpectraVoice()
    sv.harmonics[3].volume = 9
    sv.harmonics[3].type = sv.HarmonicType.metal
    sv.harmonic_freqs.values[0] = 7
    mc = m.MultiCtl(mappings=[(5, 6, 1)])
    mc.mappings.values[0].max = 77
    mc.clone()
    g = m.Generator()
    g.drawn_waveform.samples[0] = 99
    g.clone()


def _links_two_projects():
    from rv.api import Project, m

    p, q = Project(), Project()
    a, b, c = (p.new_module(m.Amplifier) for _ in range(3))
    x, y = (q.new_module(m.Amplifier) for _ in range(2))
    a >> [b, c] >> p.output
    x >> y >> q.output
    a >> ~b
    try:
        a >> y
    except Exception:  # noqa: BLE001
        pass
    try:
        q.connect(x, c)
    except Exception:  # noqa: BLE001
        pass
    p.read()
    q.clone()


def _sampler_edited():
    from rv.api import Synth, m, read_sunvox_file

    s = m.Sampler()
    smp = s.Sample()
    smp.data = bytes(range(24))
    smp.format = s.Format.int16
    smp.channels = s.Channels.mono
    s.samples[2] = smp
    s.effect = Synth(m.Echo())
    data = Synth(s).read()
    a = read_sunvox_file(BytesIO(data)).module
    b = a.clone()
    b.samples[2].volume = 3
    b.volume_envelope.points.append((999, 0))
    b.effect_control_envelopes[2].points[0] = (1, 2)
    b.note_samples[list(b.note_samples)[100]] = 2
    b.effect.module.wet = 1
    Synth(b).read()
    a.pitch_envelope.points.append((5, -5))


def _failed_loads():
    from rv.api import Synth, m, read_sunvox_file

    data = Synth(m.MetaModule()).read()
    for bad in (data[: len(data) // 2], b"SSYN\0\0\0\0VERS\4\0\0\0\1\2\1\2SFFF\4\0\0\0\0\0\0\0STYP\4\0\0\0Nop\0SEND\0\0\0\0", b"", b"RIFF"):
        try:
            read_sunvox_file(BytesIO(bad))
        except Exception:  # noqa: BLE001
            pass
    try:
        read_sunvox_file("/nonexistent/dir/x.sunvox")
    except Exception:  # noqa: BLE001
        pass


def _bulk_pattern_edits():
    from rv.api import Note, Pattern, Project, m

    p = Project()
    p.new_module(m.MultiSynth)
    pat = Pattern(tracks=2, lines=3)
    p.attach_pattern(pat)
    p.read()
    pat.set_via_fn(lambda pt, ln, tr: Note(module=ln + 1))

    def gen(pt, new):
        yield 0, 0, Note(vel=5)
        raise RuntimeError("stop")

    try:
        pat.set_via_gen(gen)
    except RuntimeError:
        pass
    pat.set_via_gen(lambda pt, new: iter([(1, 1, Note(ctl=0x0102))]))


def _options_toggled():
    from rv.api import Synth, m, read_sunvox_file

    ms = m.MultiSynth()
    ms.round_note_x = True
    ms.out_port_mode = 3
    read_sunvox_file(BytesIO(Synth(ms).read()))
    mm = m.MetaModule()
    mm.do_not_receive_notes_from_keyboard = True
    mm.event_output = False
    mm.clone()
    ag = m.AnalogGenerator()
    ag.smooth_frequency_change = False
    ag.clone()
    # values wider than the option's bit field, negative values, constructor keywords (the library takes them silently)
    sm = m.Sampler()
    sm.fit_to_pattern = 300
    sm.fit_to_pattern = -1
    sm.clone()
    m.MultiSynth(active_curve=7, out_port_mode=9).clone()
    m.MetaModule(user_defined_controllers=200, arpeggiator=True).clone()
    m.Sound2Ctl(send_only_changed_values=False, record_values=True).clone()


def _controllers_everywhere():
    import rv.modules as m

    for cls in list(m.MODULE_CLASSES.values())[::3]:
        mod = cls()
        for name, c in list(mod.controllers.items())[:40]:
            t = c.instance_value_type(mod)
            if hasattr(t, "min") and c.attached(mod):
                for v in (t.min, t.max):
                    try:
                        setattr(mod, name, v)
                        mod.set_raw(name, mod.get_raw(name))
                        c.pattern_value(mod, v)
                    except Exception:  # noqa: BLE001
                        pass


def _midi_bindings():
    """Modules of several types with MIDI bindings on their (often same-named) controllers, saved and loaded."""
    from rv.api import Project, Synth, m, read_sunvox_file
    from rv.cmidmap import MidiMessageType, Slope

    p = Project()
    for k, cls in enumerate((m.Amplifier, m.AnalogGenerator, m.Generator, m.Echo, m.MetaModule)):
        mod = p.new_module(cls)
        for j, name in enumerate(list(mod.controllers)[:6]):
            mm = mod.controller_midi_maps[name]
            mm.message_type = MidiMessageType(1 + (j + k) % 7)
            mm.channel = (3 * j + k) % 17
            mm.slope = Slope((j + k) % 5)
            mm.message_parameter = 1000 + 10 * k + j
        read_sunvox_file(BytesIO(Synth(mod).read()))
    q = read_sunvox_file(BytesIO(p.read()))
    q.modules[1].controller_midi_maps["volume"].channel = 9
    q.read()


def _failed_saves():
    """Saves that fail because a field does not fit its file field (a user's mistake, corrected afterwards)."""
    from rv.api import Pattern, Project, Synth, m

    s = m.Sampler()
    smp = s.Sample()
    smp.data = b"abcdefgh"
    s.samples[0] = smp
    for attr, bad in (("volume", 300), ("finetune", 99999), ("name", "text instead of bytes")):
        old = getattr(smp, attr)
        setattr(smp, attr, bad)
        try:
            Synth(s).read()
        except Exception:  # noqa: BLE001
            pass
        setattr(smp, attr, old)
    mm = m.MetaModule()
    amp = mm.project.new_module(m.Amplifier)
    p = Project()
    p.attach_module(mm)
    pat = Pattern(tracks=1, lines=1)
    p.attach_pattern(pat)
    for obj, attr, bad in ((amp, "mod_finetune", 2**40), (mm, "x", 2**40), (pat, "y", 2**40), (p, "initial_bpm", -1), (amp, "name", None)):
        old = getattr(obj, attr)
        setattr(obj, attr, bad)
        for fn in (p.read, lambda: Synth(mm).read(), mm.clone):
            try:
                fn()
            except Exception:  # noqa: BLE001
                pass
        setattr(obj, attr, old)
    p.read()


def _short_array_chunks_and_macros():
    """Files of older versions whose array chunks are shorter than today's (a MultiCtl / MetaModule mapping
    table with a few entries, a short curve); MultiCtl.macro calls that are refused and ones that succeed."""
    import struct

    from rv.api import Project, Synth, m, read_sunvox_file
    from vlib import chunktools

    for cls, chnm, keep in ((m.MultiCtl, 0, 32), (m.MultiCtl, 1, 64), (m.MetaModule, 1, 4 * 64), (m.MultiSynth, 0, 64), (m.WaveShaper, 0, 128)):
        chunks = chunktools.parse(Synth(cls()).read())
        out = []
        for i, (cid, pl) in enumerate(chunks):
            if cid == b"CHDT" and i > 0 and chunks[i - 1] == (b"CHNM", struct.pack("<I", chnm)):
                pl = pl[:keep]
            out.append((cid, pl))
        try:
            mod = read_sunvox_file(BytesIO(chunktools.build(out))).module
            mod.clone()
        except Exception:  # noqa: BLE001
            pass
    p = Project()
    a, b, s = p.new_module(m.Amplifier), p.new_module(m.Amplifier), p.new_module(m.Sampler)
    for targets in ([(a, "volume"), (a, "balance")], [(a, "volume"), (b, "balance"), (s, "vibrato_depth")], [(x, "volume") for x in [p.new_module(m.Amplifier) for _ in range(17)]], [(b, "gain")]):
        try:
            m.MultiCtl.macro(p, *targets)
        except Exception:  # noqa: BLE001 - refusals (two controllers of one module, too many targets) are part of the use
            pass
    p.read()


def _warn_only_values():
    """Values outside the limits of the unit-dependent (warn-only) controllers: the library takes them with a
    warning - a frequency assigned before its unit, a negative delay, a huge length."""
    from rv.api import Synth, m

    lfo = m.Lfo()
    lfo.freq = 5000
    lfo.frequency_unit = lfo.FrequencyUnit.hz
    e = m.Echo()
    e.delay = -16
    e.delay_unit = list(type(e).delay_unit.value_type)[-1] if hasattr(type(e), "delay_unit") else 0
    d = m.Delay()
    d.delay_l, d.delay_r = -3, 99999
    v = m.Vibrato()
    v.freq = -1
    lp = m.Loop()
    lp.length = 10**6
    for x in (lfo, e, d, v, lp):
        try:
            Synth(x).read()
            x.clone()
        except Exception:  # noqa: BLE001
            pass


def _surplus_and_missing_chunks():
    """Files as other SunVox versions write them: more CVAL/CMID records than the type declares
    controllers, fewer than it declares, unknown chunk ids, extra numbered CHNK entries."""
    import struct

    from rv.api import Project, Synth, m, read_sunvox_file
    from vlib import chunktools

    for cls in (m.Sampler, m.Amplifier, m.MetaModule, m.AnalogGenerator, m.Lfo):
        chunks = chunktools.parse(Synth(cls()).read())
        last_cval = max(i for i, (cid, _) in enumerate(chunks) if cid == b"CVAL")
        extra = [(b"CVAL", struct.pack("<i", 7 + k)) for k in range(3)]
        more = chunks[: last_cval + 1] + extra + chunks[last_cval + 1 :]
        more = [(cid, pl + bytes(8 * 3) if cid == b"CMID" else pl) for cid, pl in more]
        fewer = [c for i, c in enumerate(chunks) if not (c[0] == b"CVAL" and i >= last_cval - 1)]
        unknown = chunks[:-1] + [(b"XTRA", b"\1\2\3\4"), (b"CHNM", struct.pack("<I", 77)), (b"CHDT", b"surplus"), chunks[-1]]
        for variant in (more, fewer, unknown):
            try:
                mod = read_sunvox_file(BytesIO(chunktools.build(variant))).module
                mod.clone()
                p = Project()
                p.attach_module(mod)
                read_sunvox_file(BytesIO(p.read()))
            except Exception:  # noqa: BLE001
                pass


OPS = [
    _legacy_version_load,
    _metamodule_mapped,
    _curves_scribbled,
    _nested_metamodule,
    _links_two_projects,
    _sampler_edited,
    _failed_loads,
    _bulk_pattern_edits,
    _options_toggled,
    _controllers_everywhere,
    _fixtures,
    _surplus_and_missing_chunks,
    _midi_bindings,
    _failed_saves,
    _short_array_chunks_and_macros,
    _warn_only_values,
]

# cheap ops that a check may run *inside* a case (between two observations of one object)
LIGHT = [_failed_saves, _legacy_version_load, _metamodule_mapped, _nested_metamodule, _sampler_edited, _failed_loads, _options_toggled, _midi_bindings, _surplus_and_missing_chunks]


def light(i):
    try:
        LIGHT[i % len(LIGHT)]()
    except Exception:  # noqa: BLE001 - noise is not an oracle
        pass

_STATE = {"n": 0, "ran": 0}


def step(every=9):
    """Called once per case: every `every`-th call runs the next op of the round robin."""
    _STATE["n"] += 1
    if _STATE["n"] % every:
        return
    run_one(_STATE["ran"])
    _STATE["ran"] += 1


def run_one(i):
    try:
        OPS[i % len(OPS)]()
    except Exception:  # noqa: BLE001 - noise is not an oracle
        pass
    finally:
        import rv.errors

        # the checks' own strict-mode expectations are about the library's behaviour, which C18
        # covers after loads; noise must not mask them by leaving its *own* exceptions' effects
        pass


def all_once():
    for i in range(len(OPS)):
        run_one(i)
    return len(OPS)
