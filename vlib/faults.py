"""Fault injection helpers used by C18 (all interception happens from the check process)."""

from __future__ import annotations

import contextlib
import io
import pathlib


class InjectedIOError(OSError):
    pass


class InjectedChunkFault(RuntimeError):
    pass


class InjectedBaseFault(BaseException):
    """Not an Exception subclass (stands for KeyboardInterrupt-like interruptions of a read)."""


def _fault_factories():
    import errno

    def os_error(code):
        return lambda msg: OSError(code, msg)

    return [
        ("InjectedIOError", InjectedIOError),
        ("EIO", os_error(errno.EIO)),
        ("ESTALE", os_error(errno.ESTALE)),
        ("EINTR", os_error(errno.EINTR)),
        ("EAGAIN", os_error(errno.EAGAIN)),
        ("ENOENT", os_error(errno.ENOENT)),
        ("TimeoutError", TimeoutError),
        ("ConnectionResetError", ConnectionResetError),
        ("MemoryError", MemoryError),
        ("ValueError", lambda msg: ValueError("I/O operation on closed file (%s)" % msg)),
        ("EOFError", EOFError),
        ("InjectedBaseFault", InjectedBaseFault),
    ]


FAULT_KINDS = _fault_factories()


def make_fault(exc_index, msg):
    name, factory = FAULT_KINDS[(exc_index or 0) % len(FAULT_KINDS)]
    return factory(msg)


class FaultyFile:
    """File-like wrapper: raises InjectedIOError at the k-th read() call (0-based)."""

    def __init__(self, raw, fail_at=None, exc_index=0):
        self.raw = raw
        self.fail_at = fail_at
        self.exc_index = exc_index
        self.reads = 0
        self.fired = False

    def read(self, n=-1):
        i = self.reads
        self.reads += 1
        if self.fail_at is not None and i == self.fail_at:
            self.fired = True
            raise make_fault(self.exc_index, "injected I/O error at read call %d" % i)
        return self.raw.read(n)

    def seek(self, *a):
        return self.raw.seek(*a)

    def tell(self):
        return self.raw.tell()

    def close(self):
        return self.raw.close()

    @property
    def closed(self):
        return self.raw.closed

    def __enter__(self):
        return self

    def __exit__(self, *a):
        self.close()


class TrackedOpen:
    """Replaces pathlib.Path.open for the duration of the context; every file it hands
    out is wrapped in FaultyFile(fail_at) and remembered."""

    def __init__(self, fail_at=None, exc_index=0):
        self.fail_at = fail_at
        self.exc_index = exc_index
        self.files = []
        self._orig = None

    def __enter__(self):
        self._orig = pathlib.Path.open
        tracker = self

        def patched(path_self, *args, **kw):
            raw = tracker._orig(path_self, *args, **kw)
            ff = FaultyFile(raw, tracker.fail_at, tracker.exc_index)
            tracker.files.append(ff)
            return ff

        pathlib.Path.open = patched
        return self

    def __exit__(self, *a):
        pathlib.Path.open = self._orig
        for f in self.files:
            # do not leak descriptors from a buggy tree; state was already observed
            try:
                f.raw.close()
            except Exception:  # noqa: BLE001
                pass


@contextlib.contextmanager
def counting_chunks(fail_at=None):
    """Wrap rv.readers.reader.chunks: count every chunk boundary across nested loads,
    raise InjectedChunkFault before yielding chunk number fail_at."""
    import rv.readers.reader as rr

    orig = rr.chunks
    state = {"n": 0, "fired": False, "depth_at_fire": None, "active": 0}

    def wrapped(f):
        state["active"] += 1
        try:
            for item in orig(f):
                i = state["n"]
                state["n"] += 1
                if fail_at is not None and i == fail_at:
                    state["fired"] = True
                    state["depth_at_fire"] = state.get("load_depth", 0)
                    raise InjectedChunkFault("injected fault at chunk boundary %d" % i)
                yield item
        finally:
            state["active"] -= 1

    import rv.modules.metamodule as mm
    import rv.modules.sampler as sm

    state["load_depth"] = 0
    state["nested_loads"] = 0
    orig_mm, orig_sm = mm.read_sunvox_file, sm.read_sunvox_file

    def nested(orig_fn):
        def inner(f):
            state["load_depth"] += 1
            state["nested_loads"] += 1
            try:
                return orig_fn(f)
            finally:
                state["load_depth"] -= 1

        return inner

    rr.chunks = wrapped
    mm.read_sunvox_file = nested(orig_mm)
    sm.read_sunvox_file = nested(orig_sm)
    try:
        yield state
    finally:
        rr.chunks = orig
        mm.read_sunvox_file = orig_mm
        sm.read_sunvox_file = orig_sm


class InjectedDiagnosticFault(Exception):
    pass


@contextlib.contextmanager
def failing_diagnostics(fail_at=None, warnings_as_errors=False):
    """Count every diagnostic the library emits (records on the "rv" logger tree and Python
    warnings); make the fail_at-th one fail the way a user-installed logging handler that
    raises, or `-W error`, does.  Both are ordinary process configurations a load can run under."""
    import logging
    import warnings

    state = {"n": 0, "fired": False, "warnings": 0}

    class H(logging.Handler):
        def emit(self, record):
            i = state["n"]
            state["n"] += 1
            if fail_at is not None and i == fail_at:
                state["fired"] = True
                raise InjectedDiagnosticFault("injected failure in logging handler at record %d" % i)

    lg = logging.getLogger("rv")
    h = H(level=logging.DEBUG)
    old_level, old_prop = lg.level, lg.propagate
    lg.addHandler(h)
    lg.propagate = False
    disabled = logging.root.manager.disable
    logging.disable(logging.NOTSET)  # the harness silences logging globally; diagnostics are the subject here
    if lg.getEffectiveLevel() > logging.WARNING:
        lg.setLevel(logging.WARNING)
    with warnings.catch_warnings(record=not warnings_as_errors) as caught:
        if warnings_as_errors:
            warnings.simplefilter("error")
        else:
            warnings.simplefilter("always")
        try:
            yield state
        finally:
            lg.removeHandler(h)
            logging.disable(disabled)
            lg.setLevel(old_level)
            lg.propagate = old_prop
            if caught is not None:
                state["warnings"] = len(caught)
