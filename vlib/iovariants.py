"""The alternative ways of writing and reading a file must agree.

`read()` is the usual way to get the bytes of a container and a BytesIO the usual source of a
load; users equally call `write_to(open file)` and `read_sunvox_file("song.sunvox")` /
`read_sunvox_file(Path(...))`.  These helpers are called by the round-trip checks on their
generated objects, so that every generated case also exercises the other entry points.
"""

from __future__ import annotations

import os
import tempfile
from io import BytesIO

from vlib import snapshot
from vlib.harness import PropertyViolation


class _Sink:
    """A write-only, non-seekable file object (a pipe / socket-like destination)."""

    def __init__(self):
        self.parts = []

    def write(self, b):
        self.parts.append(bytes(b))
        return len(b)


class _QuietSeek:
    """A readable stream written by hand: read / seek / tell work, seek returns None (as mmap.seek does before Python 3.13)."""

    def __init__(self, raw):
        self.raw = raw

    def read(self, n=-1):
        return self.raw.read(n)

    def seek(self, *a):
        self.raw.seek(*a)

    def tell(self):
        return self.raw.tell()


def writers_agree(obj, data, prop):
    f = BytesIO()
    obj.write_to(f)
    if f.getvalue() != data:
        raise PropertyViolation(prop + ".write_to_vs_read", "write_to(BytesIO) wrote %d bytes that differ from read() (%d bytes)" % (len(f.getvalue()), len(data)), key=prop + ".write_to_vs_read")
    s = _Sink()
    obj.write_to(s)
    if b"".join(s.parts) != data:
        raise PropertyViolation(prop + ".write_to_sink", "write_to(write-only stream) wrote bytes that differ from read()", key=prop + ".write_to_vs_read")
    # a BytesIO that already holds something and is positioned at its end
    g = BytesIO()
    g.write(b"HEAD")
    obj.write_to(g)
    if g.getvalue() != b"HEAD" + data:
        raise PropertyViolation(prop + ".write_to_offset", "write_to(stream positioned after 4 earlier bytes) did not append exactly the bytes of read()", key=prop + ".write_to_vs_read")
    # file objects that sit on top of another file (compressing writers): what comes out after
    # decompression is the same bytes
    import bz2
    import gzip
    import lzma

    fd, zname = tempfile.mkstemp(prefix="rvverif_z_")
    os.close(fd)
    try:
        for label, opener in (("gzip", gzip.open), ("bz2", bz2.open), ("lzma", lzma.open)):
            with opener(zname, "wb") as f:
                obj.write_to(f)
            try:
                with opener(zname, "rb") as f:
                    got = f.read()
            except Exception as e:  # noqa: BLE001 - the compressed stream itself is damaged
                raise PropertyViolation(prop + ".write_to_layered", "write_to(%s file): what was written cannot be decompressed again (%s: %s)" % (label, type(e).__name__, e), key=prop + ".write_to_vs_read")
            if got != data:
                raise PropertyViolation(prop + ".write_to_layered", "write_to(%s file): decompressing gives %d bytes that differ from read() (%d bytes)" % (label, len(got), len(data)), key=prop + ".write_to_vs_read")
            if len(data) < 200000:
                break  # the other two compressors only for big payloads (they are slow)
    finally:
        try:
            os.unlink(zname)
        except OSError:
            pass
    # real files: opened for writing, and opened for appending after other content
    fd, name = tempfile.mkstemp(prefix="rvverif_w_")
    os.close(fd)
    try:
        for mode, head in (("wb", b""), ("ab", b"EARLIER CONTENT"), ("r+b", b"")):
            with open(name, "wb") as f:
                f.write(head)
            with open(name, mode) as f:
                obj.write_to(f)
            with open(name, "rb") as f:
                got = f.read()
            if got != head + data:
                raise PropertyViolation(prop + ".write_to_file", "write_to(file opened %r) left %d bytes in the file that differ from read() (%d bytes)" % (mode, len(got) - len(head), len(data)), key=prop + ".write_to_vs_read")
    finally:
        try:
            os.unlink(name)
        except OSError:
            pass


def loaders_agree(data, want_snap, snap_fn, prop, suffix):
    """Load `data` from a path given as str and as pathlib.Path; snap_fn(loaded) must equal `want_snap`."""
    from pathlib import Path

    from rv.api import read_sunvox_file

    import mmap

    def same(o, how):
        d = snapshot.diff(want_snap, snap_fn(o)) if o is not None else [("", "an object", None)]
        if d:
            raise PropertyViolation(prop + ".path_vs_stream", "loaded from %s: %s" % (how, "; ".join("%s: %r -> %r" % x for x in d[:3])), key=prop + ".path_vs_stream")

    # the file sits behind something else in its stream (an application's own header): loading starts where the stream stands
    f0 = BytesIO(b"APPHEADER!" + data)
    f0.seek(10)
    same(read_sunvox_file(f0), "a BytesIO positioned after 10 other bytes")
    same(read_sunvox_file(_QuietSeek(BytesIO(data))), "a stream object whose seek() returns nothing")
    fd, name = tempfile.mkstemp(suffix=suffix, prefix="rvverif_")
    try:
        with os.fdopen(fd, "wb") as f:
            f.write(b"APPHEADER!" + data)
        with open(name, "rb") as f:
            f.seek(10)
            same(read_sunvox_file(f), "an open file positioned after 10 other bytes")
        with open(name, "wb") as f:
            f.write(data)
        for how, arg in (("str path", name), ("pathlib.Path", Path(name))):
            same(read_sunvox_file(arg), "a " + how)
        with open(name, "rb", buffering=0) as f:
            same(read_sunvox_file(f), "an unbuffered file object")
        # streams whose file descriptor belongs to other bytes than the ones they deliver: files compressed on disk
        # (only for files that are not large: seeking backwards in such a stream re-reads it from the start)
        if len(data) <= 200000:
            import bz2
            import gzip
            import lzma

            for how, opener in (("gzip.open", gzip.open), ("bz2.open", bz2.open), ("lzma.open", lzma.open)):
                with opener(name, "wb") as f:
                    f.write(data)
                with opener(name, "rb") as f:
                    same(read_sunvox_file(f), "a file object from %s()" % how)
            with open(name, "wb") as f:
                f.write(data)
        if data:
            with open(name, "rb") as f:
                mm = mmap.mmap(f.fileno(), 0, access=mmap.ACCESS_READ)
                try:
                    same(read_sunvox_file(mm), "an mmap object")
                finally:
                    mm.close()
    finally:
        try:
            os.unlink(name)
        except OSError:
            pass


def clone_agrees(obj, want_snap, snap_fn, prop):
    """Container.clone() (Project / Synth) is one more way of saving and loading."""
    c = obj.clone()
    if c is obj or type(c) is not type(obj):
        raise PropertyViolation(prop + ".container_clone.type", "%s.clone() returned %r" % (type(obj).__name__, c), key=prop + ".container_clone")
    d = snapshot.diff(want_snap, snap_fn(c))
    if d:
        raise PropertyViolation(prop + ".container_clone", "%s.clone(): %s" % (type(obj).__name__, "; ".join("%s: %r -> %r" % x for x in d[:3])), key=prop + ".container_clone")


def copies_agree(obj, data, prop):
    """Python's own copying of a container (copy.deepcopy, a pickle round trip) gives an object that
    writes the same file.  (Only used for small objects: deep copies are slow.)"""
    import copy
    import pickle

    if len(data) > 60000:
        return
    for how, fn in (("copy.deepcopy", copy.deepcopy), ("pickle round trip", lambda o: pickle.loads(pickle.dumps(o)))):
        c = fn(obj)
        got = c.read()
        if got != data:
            raise PropertyViolation(prop + ".python_copy", "%s of a %s writes %d bytes that differ from what the original writes (%d bytes)" % (how, type(obj).__name__, len(got), len(data)), key=prop + ".python_copy")
    if obj.read() != data:
        raise PropertyViolation(prop + ".python_copy.original", "copying a %s changed what the original writes" % type(obj).__name__, key=prop + ".python_copy")
