"""Replay tier: run every committed regression input of a property as a plain function."""
import importlib
import json

from vlib.harness import PropertyViolation, as_violation, reset_globals


def run_shard(ctx, desc):
    mod = importlib.import_module("checks." + ctx.prop.lower())
    for path in desc["files"]:
        with open(path) as f:
            doc = json.load(f)
        ctx.case()
        ctx.label("replay_file")
        reset_globals()
        try:
            mod.replay(ctx, doc)
        except PropertyViolation as v:
            ctx.fail(v, {"replay_of": path, "recipe": doc.get("recipe")})
        except Exception as e:  # noqa: BLE001
            v = as_violation(e, ctx.prop, "replay")
            if v is None:
                raise
            ctx.fail(v, {"replay_of": path, "recipe": doc.get("recipe")})
