"""Hypothesis strategies shared by the checks.  Values are plain JSON-able data."""

from __future__ import annotations

from hypothesis import strategies as st

from vlib import specmodel

U32 = 2**32 - 1
I32_MIN, I32_MAX = -(2**31), 2**31 - 1


def edge_int(lo, hi, extra=()):
    """Edge-biased integer in [lo, hi]."""
    edges = {lo, hi, min(hi, lo + 1), max(lo, hi - 1), (lo + hi) // 2}
    for e in extra:
        if lo <= e <= hi:
            edges.add(e)
    if lo <= 0 <= hi:
        edges.add(0)
    return st.one_of(st.sampled_from(sorted(edges)), st.integers(lo, hi))


def u32(extra=()):
    return edge_int(0, U32, extra=(1, 255, 256, 65535, 65536, 2**31 - 1, 2**31) + tuple(extra))


def i32(extra=()):
    return edge_int(I32_MIN, I32_MAX, extra=(-1, 1, -128, 127, 128, 255, 256, -32768, 32767, 65535) + tuple(extra))


# strings that mean something to code that (mis)uses a text as a template, a path, a number or a pattern
TRICKY_TEXTS = ["{}", "Amp {L}", "{0}", "%s", "100%", "%(name)s", "a\\b", "'quoted'", '"dq"', "a/b", "..", " lead", "trail ", "\t", "1", "0", "-1", "None", "e\u0301", "\u00e9", "A\u030a", "\ufb01", "\u200b", "\U0001f3b5", "a\nb", "\ufeffIntro", "\ufeff", "x\ufeff", "\ufffe", "\ufffd", "\u202e", "\x7f", "\x01", "\r\n"]


def text_no_nul(max_size=80):
    alphabet = st.characters(blacklist_characters="\x00", blacklist_categories=("Cs",))
    tricky = [t for t in TRICKY_TEXTS if len(t) <= max_size]
    return st.one_of(st.text(alphabet, max_size=max_size), st.text(alphabet, max_size=max_size), st.text(alphabet, max_size=max_size), st.sampled_from(tricky) if tricky else st.just(""))


def long_text(min_bytes=200, max_chars=400):
    """Text well beyond every 8-bit length (labels, names of things that are stored without a fixed width)."""
    alphabet = st.characters(blacklist_characters="\x00", blacklist_categories=("Cs",), max_codepoint=0x2FFF)
    return st.one_of(
        st.sampled_from(["x" * 255, "x" * 256, "x" * 300, "\u00e9" * 127 + "z", "\u00e9" * 128, "\u4e2d" * 85, "\u4e2d" * 86, "ab" * 700]),
        st.text(alphabet, min_size=min_bytes, max_size=max_chars),
    )


@st.composite
def straddling_name(draw):
    """A string whose UTF-8 form places a multi-byte code point across byte offset 32."""
    wide = draw(st.sampled_from(["é", "€", "\U0001f3b5", "Ж", "中"]))
    w = len(wide.encode("utf8"))
    # prefix of ascii bytes so the wide char starts at 32-w+1 .. 31
    start = draw(st.integers(32 - w + 1, 31))
    tail = draw(st.text(st.characters(min_codepoint=32, max_codepoint=0x2FF, blacklist_categories=("Cs",)), max_size=6))
    return "a" * start + wide + tail


def name_text(max_size=48):
    return st.one_of(text_no_nul(max_size), text_no_nul(12), straddling_name(), st.sampled_from(["", "x", "a" * 32, "a" * 33, "é" * 16, "é" * 17]))


def ctl_values(c, unit=None):
    """In-range user value for a spec controller (JSON-able: ints, bools, or ["enum", name])."""
    if c.kind in ("range", "compact", "no_offset"):
        return edge_int(c.min, c.max)
    if c.kind == "dependent":
        lo, hi = c.ranges[unit]
        return edge_int(lo, hi)
    if c.kind == "enum":
        return st.sampled_from(sorted(c.members)).map(lambda n: ["enum", n])
    if c.kind == "bool":
        return st.booleans()
    raise AssertionError(c.kind)


def module_type_names(include_output=False):
    names = sorted(specmodel.load())
    if not include_output:
        names = [n for n in names if n != "Output"]
    return st.sampled_from(names)


# byte strings that mean something to the file format itself (chunk ids, signatures); data that
# merely *contains* them is ordinary data
MAGIC_BYTES = [b"PMAS", b"SAMP", b"SEND", b"PEND", b"CHNK", b"CHNM", b"CHDT", b"CHFF", b"CHFR", b"SVOX", b"SSYN", b"VERS", b"OggS", b"\xff\xff\xff\xff", b"\x00\x00\x00\x00"]


@st.composite
def bytes_with_magic(draw, max_size=22):
    """Arbitrary bytes with one of the format's own byte patterns spliced in somewhere."""
    magic = draw(st.sampled_from(MAGIC_BYTES))
    body = draw(st.binary(max_size=max(0, max_size - len(magic))))
    pos = draw(st.integers(0, len(body)))
    return body[:pos] + magic + body[pos:]
