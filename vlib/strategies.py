"""Hypothesis strategies shared by the checks.  Values are plain JSON-able data."""

from __future__ import annotations

from hypothesis import strategies as st

from vlib import specmodel

U32 = 2**32 - 1
I32_MIN, I32_MAX = -(2**31), 2**31 - 1


def edge_int(lo, hi, extra=()):
    """Edge-biased integer in [lo, hi]."""
    edges = {lo, hi, min(hi, lo + 1), max(lo, hi - 1), (lo + hi) // 2}
    for e in extra:
        if lo <= e <= hi:
            edges.add(e)
    if lo <= 0 <= hi:
        edges.add(0)
    return st.one_of(st.sampled_from(sorted(edges)), st.integers(lo, hi))


def u32(extra=()):
    return edge_int(0, U32, extra=(1, 255, 256, 65535, 65536, 2**31 - 1, 2**31) + tuple(extra))


def i32(extra=()):
    return edge_int(I32_MIN, I32_MAX, extra=(-1, 1, -128, 127, 128, 255, 256, -32768, 32767, 65535) + tuple(extra))


def text_no_nul(max_size=80):
    alphabet = st.characters(blacklist_characters="\x00", blacklist_categories=("Cs",))
    return st.text(alphabet, max_size=max_size)


@st.composite
def straddling_name(draw):
    """A string whose UTF-8 form places a multi-byte code point across byte offset 32."""
    wide = draw(st.sampled_from(["é", "€", "\U0001f3b5", "Ж", "中"]))
    w = len(wide.encode("utf8"))
    # prefix of ascii bytes so the wide char starts at 32-w+1 .. 31
    start = draw(st.integers(32 - w + 1, 31))
    tail = draw(st.text(st.characters(min_codepoint=32, max_codepoint=0x2FF, blacklist_categories=("Cs",)), max_size=6))
    return "a" * start + wide + tail


def name_text(max_size=48):
    return st.one_of(text_no_nul(max_size), text_no_nul(12), straddling_name(), st.sampled_from(["", "x", "a" * 32, "a" * 33, "é" * 16, "é" * 17]))


def ctl_values(c, unit=None):
    """In-range user value for a spec controller (JSON-able: ints, bools, or ["enum", name])."""
    if c.kind in ("range", "compact", "no_offset"):
        return edge_int(c.min, c.max)
    if c.kind == "dependent":
        lo, hi = c.ranges[unit]
        return edge_int(lo, hi)
    if c.kind == "enum":
        return st.sampled_from(sorted(c.members)).map(lambda n: ["enum", n])
    if c.kind == "bool":
        return st.booleans()
    raise AssertionError(c.kind)


def module_type_names(include_output=False):
    names = sorted(specmodel.load())
    if not include_output:
        names = [n for n in names if n != "Output"]
    return st.sampled_from(names)
