#!/bin/sh
# Repository test suite with the (unused) hook guard off.
unset RADIANT_VOICES_VERIF
cd /repo && exec /venv/bin/python -m pytest -ra -q -p no:cacheprovider --timeout=900 --continue-on-collection-errors "$@"
