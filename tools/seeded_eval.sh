#!/bin/sh
# usage: seeded_eval.sh <ID> [extra props...]  - confirm /tmp/seeded_out/<ID>, copy to /verif/seeded/<ID>, run checks
ID=$1; shift
SRC=/tmp/seeded_out/$ID
DST=/verif/seeded/$ID
mkdir -p $DST
cp $SRC/patch.diff $SRC/demo.py $SRC/meta.json $DST/ 2>/dev/null
/verif/tools/seeded.py confirm $DST > $DST/confirm.json 2>&1
grep -E '"confirmed"|suite_with_patch|demo_' $DST/confirm.json | tr -d '\n'; echo
/verif/tools/seeded.py run $DST $ID "$@"
