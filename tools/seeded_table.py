#!/venv/bin/python
"""Print the DESIGN.md table of seeded changes from /verif/seeded/*/{meta.json,detection_quick.json}."""
import glob, json, os
rows = []
for d in sorted(glob.glob('/verif/seeded/C*')):
    sid = os.path.basename(d)
    meta = json.load(open(os.path.join(d, 'meta.json')))
    det = {}
    p = os.path.join(d, 'detection_quick.json')
    if os.path.exists(p):
        det = json.load(open(p))
    caught = sorted(k for k, v in det.items() if v.get('rc') == 1)
    err = sorted(k for k, v in det.items() if v.get('rc') == 2)
    summ = ' '.join(str(meta.get('summary', '')).split())
    needs = ' '.join(str(meta.get('needs', '')).split())
    rows.append((sid, summ[:230], needs[:200], caught, err))
print('| id | change (as described by its author) | needs | checks that report it (quick tier) |')
print('|---|---|---|---|')
for sid, summ, needs, caught, err in rows:
    print('| %s | %s | %s | %s%s |' % (sid, summ.replace('|', '/'), needs.replace('|', '/'), ', '.join(caught) or '-', (' (harness error: %s)' % ', '.join(err)) if err else ''))
