#!/bin/sh
# clean-tree sweep: every check, quick tier, for the given seeds (default 1 2 3); prints one line per run
# usage: tools/sweep.sh [seeds...]   (evidence files are not rewritten)
cd "$(dirname "$0")/.."
seeds="${*:-1 2 3}"
for s in $seeds; do
  for i in 01 02 03 04 05 06 07 08 09 10 11 12 13 14 15 16 17 18 19 20; do
    out=$(VERIF_SEED=$s ./run_check.py C$i --tier quick --no-evidence 2>&1); rc=$?
    echo "seed=$s C$i rc=$rc $(echo "$out" | grep -E 'VIOLATION|HARNESS|KNOWN' | head -3 | tr '\n' ' ')"
  done
done
