#!/bin/sh
# usage: tools/seeded_all.sh target|others   - run the checks against every kept seeded change
#   target: only the check of the change's own property (fast; must report every change)
#   others: the 19 other checks (slow; fills in the cross-detection matrix)
cd "$(dirname "$0")/.."
mode=${1:-target}
for d in seeded/C*; do
  id=$(basename $d); prop=$(echo $id | cut -c1-3)
  if [ "$mode" = target ]; then
    echo "$id $(tools/seeded.py run $d $prop | tail -1)"
  else
    rest=""; for i in 01 02 03 04 05 06 07 08 09 10 11 12 13 14 15 16 17 18 19 20; do [ "C$i" = "$prop" ] || rest="$rest C$i"; done
    tools/seeded.py run $d $rest > /dev/null 2>&1; echo "$id others done"
  fi
done
