#!/venv/bin/python
"""Write the instruction files for one round of seeded-change sub-agents.

usage: tools/mk_seed_prompts.py <round number> <suffix of this round>
Each agent gets only: the property text + anchors, a scratch worktree /tmp/wt<R>_<ID>, an output
dir /tmp/seeded_out<R>/<ID>, and one-line summaries of the changes earlier rounds produced for the
same property (so that it does something different).  Nothing from /verif is shown to it.
"""
import glob, json, os, sys

R = sys.argv[1]
props = [json.loads(l) for l in open('/verif/properties.jsonl')]
os.makedirs('/tmp/seeded_prompts%s' % R, exist_ok=True)
KINDS = (
    "(a) two cooperating code sites that each look correct alone; (b) something that only manifests after a multi-step history of API calls on the same objects (>= 3 steps); "
    "(c) process-wide / class-level state leaking between objects or calls; (d) a rarely used module type, rarely used field combination or boundary value that ordinary use never hits; "
    "(e) behaviour that differs only on an error / exception path; (f) an interaction between two features that are each fine alone (e.g. MetaModules x patterns, Sampler x options, links x layers, old file versions x new fields); "
    "(g) an alternative API entry point that does the same job as the usual one (write_to vs read, += vs attach_*, constructor keywords vs attribute assignment, new_module vs attach_module, set_raw vs assignment, loading from a path vs a stream); "
    "(h) a Python-level subtlety (int/bool/enum confusion, `is` vs `==`, mutable default, masking or overflow at an 8/16/32-bit boundary, signedness, text encoding, dict/set ordering, generator vs list, shallow vs deep copy); "
    "(i) dependence on the ORDER in which independent things happen (which module is constructed or attached first, which file is loaded first, which option / controller / field is assigned last, whether an object was saved or looked at before it is changed); "
    "(j) numeric detail (rounding, integer vs true division, float precision, sign, wrap-around at 2^15 / 2^16 / 2^31, a single special value deep inside a large range); "
    "(k) text and bytes (non-ASCII, combining characters, strings exactly at or one past a length limit, bytes vs str, trailing NULs); "
    "(l) size (something that only differs beyond a size nobody tries by hand: more than 255 / 256 / 65535 modules, patterns, lines, tracks, points, samples, links per module, nesting levels, characters; values that need more than 8 / 15 / 16 bits); "
    "(m) the environment the library runs in (logging configuration, warnings filters, the kind of file object or path it is handed, the current directory, recursion depth, garbage collection timing, what else was imported or subclassed)"
)
for p in props:
    pid = p['id']
    mech = p.get('anchors', {}).get('mechanism', [])
    state = p.get('anchors', {}).get('state', [])
    lines = []
    for m in mech:
        lines.append(' - %s%s' % (m.get('name'), (' @ ' + m['where']) if m.get('where') else ''))
    for m in state:
        lines.append(' - state: %s (%s)%s' % (m.get('name'), m.get('meaning', ''), (' @ ' + m['where']) if m.get('where') else ''))
    earlier = []
    for d in sorted(glob.glob('/verif/seeded/%s*' % pid)):
        meta = json.load(open(os.path.join(d, 'meta.json')))
        earlier.append('- "%s" (files: %s)' % (' '.join(str(meta.get('summary', '')).split())[:300], meta.get('files')))
    wt = '/tmp/wt%s_%s' % (R, pid)
    out = '/tmp/seeded_out%s/%s' % (R, pid)
    txt = f'''You are helping evaluate a test framework by creating ONE realistic, subtle bug ("seeded change") in a Python library. Work ONLY inside the git worktree {wt} (a checkout of the radiant-voices library: pure-Python reader/writer for SunVox .sunvox/.sunsynth files; package at src/python/rv, format docs at docs/sunvox-file-format.rst, spec at specs/fileformat.yaml). Do NOT read or touch /verif or /repo. Write your outputs to {out}/.

PROPERTY the change must break ({pid} - {p['title']}):
"{p['statement']}"
Quantified: {p['quantifier']['text']}
Code that is meant to make it hold:
{chr(10).join(lines)}

TASK: make a small source change under {wt}/src/python (rv package; the genrv templates / specs are also allowed if the property speaks about them) that (1) breaks this property, (2) still imports/compiles, (3) keeps the existing test suite green, and (4) needs something SPECIFIC to manifest - an unusual input value, a particular combination, a fault at a particular point, a multi-step sequence of operations, or two cooperating code sites that each look fine alone - NOT something that ordinary use or default-constructed objects would expose at once. It should look like a plausible developer mistake, refactoring slip or "optimisation", not sabotage.

Run the test suite with:  cd {wt} && PYTHONPATH={wt}/src/python /venv/bin/python -m pytest -q -p no:cacheprovider --continue-on-collection-errors   (expected: 170 passed, 2 skipped, 1 pre-existing collection error for rv/tools/module_spec.py - that error is normal and must stay the only one).

DELIVERABLES in {out}/:
 - patch.diff : output of `git -C {wt} diff` (source change only, no new test files inside the worktree)
 - demo.py : a small stand-alone program that uses only the library's public API (from rv.api import ...; rv.errors, rv.modules... are fine), run as `PYTHONPATH=<tree>/src/python /venv/bin/python demo.py`; it must exit 0 on the unmodified tree and exit non-zero (assertion failure) with your change applied. Verify both: for the unmodified tree do NOT use git stash (other people share the repository's stash); instead run `git -C {wt} diff > {out}/patch.diff && git -C {wt} apply -R {out}/patch.diff`, run the demo, then `git -C {wt} apply {out}/patch.diff`.
 - meta.json : {{"property": "{pid}", "summary": "...what the change does...", "needs": "...what specific input/sequence/fault is needed to manifest...", "files": [...], "verified": "...commands you ran and their results..."}}
Leave the worktree with your change applied (uncommitted). Report briefly (5 lines) what you did.

IMPORTANT: earlier, independent attempts already produced these changes:
{chr(10).join(earlier)}
Do something clearly DIFFERENT from all of them - a different mechanism in a different code area; in particular no further byte/parse caches, memoisation or "write the loaded bytes back" shortcuts if those appear above. Before you choose, sketch TWO OR THREE different candidate changes and pick the one you believe a thorough, generator-based test framework (one that round-trips randomly generated objects of every module type, edits loaded objects, replays operation histories against a model and injects faults) would be LEAST likely to notice. Be inventive: think about which part of the property nobody would think of testing, and which legitimate way of using the library nobody would think of trying. The change MUST be of one of these kinds: {KINDS}. Single-line off-by-one edits in the obvious function are NOT wanted. Avoid anything that makes ordinary default usage fail, and make sure the change really violates the property AS STATED (re-read the statement and its quantifier; do not rely on a stronger reading of it, and do not rely on inputs outside the quantified domain).
'''
    open('/tmp/seeded_prompts%s/%s.txt' % (R, pid), 'w').write(txt)
print('written', len(props))
