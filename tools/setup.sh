#!/bin/sh
# Offline setup: make sure the interpreter used by the checks has what they need.
set -e
PY=/venv/bin/python
$PY -c "import hypothesis" 2>/dev/null || /venv/bin/pip install --no-index --find-links /opt/veriftools/wheels hypothesis
$PY -c "import hypothesis, yaml, jinja2; print('hypothesis', hypothesis.__version__)"
mkdir -p /verif/evidence
