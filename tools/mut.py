#!/venv/bin/python
"""Sensitivity helper: copy the package to a scratch dir, apply one textual mutation,
run a check against the copy (RV_SRC), report exit code, delete the copy.

usage: mut.py <PROP>[,<PROP>...] <relative file under src/python> <old> <new> [--tier quick] [--count N]
"""
import os, shutil, subprocess, sys, tempfile

def main():
    props, rel, old, new = sys.argv[1:5]
    extra = sys.argv[5:]
    count = 1
    if "--count" in extra:
        i = extra.index("--count"); count = int(extra[i+1]); del extra[i:i+2]
    d = tempfile.mkdtemp(prefix="rvmut_", dir="/tmp")
    try:
        dst = os.path.join(d, "python")
        shutil.copytree("/repo/src/python", dst, ignore=shutil.ignore_patterns("__pycache__"))
        p = os.path.join(dst, rel)
        s = open(p).read()
        if s.count(old) != count:
            print("MUTATION-ERROR: %r occurs %d times in %s (expected %d)" % (old, s.count(old), rel, count)); return 3
        open(p, "w").write(s.replace(old, new))
        env = dict(os.environ, RV_SRC=dst, PYTHONHASHSEED="0", PYTHONDONTWRITEBYTECODE="1")
        rcs = {}
        for prop in props.split(","):
            r = subprocess.run(["/venv/bin/python", "/verif/run_check.py", prop, "--no-evidence"] + extra, env=env, capture_output=True, text=True)
            lines = [l for l in r.stdout.splitlines() if l.startswith(("VIOLATION", "  sub_oracle", "HARNESS", "KNOWN"))]
            print("== %s rc=%d" % (prop, r.returncode)); print("\n".join(lines[:8]))
            if r.returncode == 2: print(r.stdout[-1500:], r.stderr[-1500:])
            rcs[prop] = r.returncode
        return 0
    finally:
        shutil.rmtree(d, ignore_errors=True)

sys.exit(main())
