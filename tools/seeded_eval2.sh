#!/bin/sh
# usage: seeded_eval2.sh <ID> [extra props...]  - round 2: ${SEEDSRC:-/tmp/seeded_out2}/<ID> -> /verif/seeded/<ID>b
ID=$1; shift
SRC=${SEEDSRC:-/tmp/seeded_out2}/$ID
DST=/verif/seeded/${ID}${SUFFIX:-b}
mkdir -p $DST
cp $SRC/patch.diff $SRC/demo.py $SRC/meta.json $DST/ 2>/dev/null
/verif/tools/seeded.py confirm $DST > $DST/confirm.json 2>&1
grep -E '"confirmed"' $DST/confirm.json | tr -d '\n'; echo
/verif/tools/seeded.py run $DST $ID "$@"
