#!/venv/bin/python
"""Confirm a seeded change and run checks against it.

usage:
  seeded.py confirm <dir with patch.diff/demo.py/meta.json>      -> verifies: applies cleanly, suite green, demo fails with / passes without
  seeded.py run <seeded dir> [PROP ...] [--tier quick]           -> runs the checks against a scratch worktree with the patch applied
Scratch worktrees live under /tmp and are removed afterwards.
"""
import json
import os
import shutil
import subprocess
import sys
import tempfile

PY = "/venv/bin/python"


def sh(cmd, **kw):
    return subprocess.run(cmd, shell=isinstance(cmd, str), capture_output=True, text=True, **kw)


def make_tree(patch=None):
    d = tempfile.mkdtemp(prefix="rvseed_", dir="/tmp")
    os.rmdir(d)
    r = sh(["git", "-C", "/repo", "worktree", "add", "-q", "--detach", d, "HEAD"])
    if r.returncode:
        raise SystemExit("worktree add failed: " + r.stderr)
    if patch:
        r = sh(["git", "-C", d, "apply", "--whitespace=nowarn", patch])
        if r.returncode:
            drop_tree(d)
            raise SystemExit("patch does not apply: " + r.stderr)
    return d


def drop_tree(d):
    sh(["git", "-C", "/repo", "worktree", "remove", "--force", d])
    shutil.rmtree(d, ignore_errors=True)
    sh(["git", "-C", "/repo", "worktree", "prune"])


def suite(d):
    env = dict(os.environ, PYTHONPATH=os.path.join(d, "src", "python"))
    r = sh([PY, "-m", "pytest", "-q", "-p", "no:cacheprovider", "--continue-on-collection-errors"], cwd=d, env=env)
    tail = r.stdout.strip().splitlines()[-1] if r.stdout.strip() else r.stderr[-200:]
    return tail


def demo(d, demo_py):
    env = dict(os.environ, PYTHONPATH=os.path.join(d, "src", "python"))
    r = sh([PY, demo_py], cwd=os.path.dirname(demo_py), env=env)
    return r.returncode, (r.stdout + r.stderr)[-400:]


def confirm(sd):
    patch = os.path.join(sd, "patch.diff")
    demo_py = os.path.join(sd, "demo.py")
    out = {}
    clean = make_tree()
    try:
        out["demo_clean_rc"], _ = demo(clean, demo_py)
    finally:
        drop_tree(clean)
    t = make_tree(patch)
    try:
        out["suite_with_patch"] = suite(t)
        out["demo_patched_rc"], out["demo_patched_tail"] = demo(t, demo_py)
    finally:
        drop_tree(t)
    out["confirmed"] = out["demo_clean_rc"] == 0 and out["demo_patched_rc"] != 0 and "170 passed" in out["suite_with_patch"]
    print(json.dumps(out, indent=1))
    return 0 if out["confirmed"] else 1


def run(sd, props, tier):
    patch = os.path.join(sd, "patch.diff")
    t = make_tree(patch)
    res = {}
    try:
        env = dict(os.environ, RV_REPO=t, RV_SRC=os.path.join(t, "src", "python"), PYTHONHASHSEED="0", PYTHONDONTWRITEBYTECODE="1")
        for p in props:
            r = sh([PY, "/verif/run_check.py", p, "--tier", tier, "--no-evidence"], env=env, cwd="/verif")
            subs = [l.strip() for l in r.stdout.splitlines() if l.strip().startswith("sub_oracle=")]
            res[p] = {"rc": r.returncode, "sub_oracles": subs[:6]}
            if r.returncode == 2:
                res[p]["tail"] = (r.stdout + r.stderr)[-600:]
            print(p, r.returncode, subs[:3], flush=True)
    finally:
        drop_tree(t)
    return res


def main():
    cmd = sys.argv[1]
    sd = os.path.abspath(sys.argv[2])
    if cmd == "confirm":
        return confirm(sd)
    args = sys.argv[3:]
    tier = "quick"
    if "--tier" in args:
        i = args.index("--tier")
        tier = args[i + 1]
        del args[i : i + 2]
    props = args or ["C%02d" % i for i in range(1, 21)]
    res = run(sd, props, tier)
    out = os.path.join(sd, "detection_%s%s.json" % (tier, os.environ.get("SEEDED_OUT_SUFFIX", "")))
    if os.path.exists(out) and args:
        # a partial run updates the entries of the checks that were run
        try:
            old = json.load(open(out))
        except ValueError:
            old = {}
        old.update(res)
        res = old
    if os.access(sd, os.W_OK):
        with open(out, "w") as f:
            json.dump(res, f, indent=1, sort_keys=True)
    return 0


if __name__ == "__main__":
    sys.exit(main())
