#!/usr/bin/env python3
"""Validate MANIFEST.json and every evidence file against the schemas (run with python3-vt)."""
import glob, json, sys
import jsonschema
ok = True
m = json.load(open('/verif/MANIFEST.json'))
jsonschema.validate(m, json.load(open('/root/.vp/MANIFEST.schema.json')))
es = json.load(open('/root/.vp/EVIDENCE.schema.json'))
for c in m['checks']:
    p = c['evidence_file']
    try:
        jsonschema.validate(json.load(open(p)), es)
        print('ok', p)
    except Exception as e:
        ok = False
        print('BAD', p, str(e)[:300])
sys.exit(0 if ok else 1)
