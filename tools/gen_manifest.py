#!/venv/bin/python
"""Writes /verif/MANIFEST.json from the table below and validates it against the schema."""
import json
import os
import sys

VERIF = os.path.dirname(os.path.dirname(os.path.abspath(__file__)))

# id -> (level category, technique, level text, level note, design ref)
CHECKS = {}


def reg(pid, category, technique, text, note, ref):
    CHECKS[pid] = (category, technique, text, note, ref)


reg(
    "C13",
    "exploration",
    "complete enumeration + differential (spec vs registered classes vs freshly rendered generator output)",
    "Finite domain enumerated completely: every (type, entity, field) pair of the 43 module types is compared between "
    "the YAML (parsed independently) and the classes registered at import time, and between the YAML, the genrv "
    "template rendered from the current spec, and the checked-in base classes.",
    "Trusts PyYAML, Jinja2 and vlib.specmodel's reading of the YAML keys.",
    "DESIGN.md §3 C13",
)

reg(
    "C09",
    "exploration",
    "complete enumeration of boundary/member values per controller + Hypothesis assignment histories against a model built from the YAML",
    "All 43 types x all spec'd controllers x boundary/interior/invalid values x strict/lenient x setattr/constructor are "
    "enumerated completely against the YAML (defaults, accept, reject-with-ControllerValueError, previous value kept); "
    "random histories add varied previous values and the in-range invariant after every step.",
    "Trusts the YAML tables; unit-dependent ranges only claimed in-range; exception class for invalid enum input not claimed.",
    "DESIGN.md §3 C09",
)
reg(
    "C10",
    "exploration",
    "complete enumeration of the finite (controller, unit, value) domain against expected encodings computed from the YAML",
    "thorough enumerates every integer of every controller range under every unit variant (about 3.7 M points, exhaustive), "
    "every enum member and boolean; quick strides the large ranges. Oracles: stored value = v - min (min<0) / v, bijective, "
    "set_raw inverse, pattern value 0 at min, 0x8000 at max, monotone; compact = v - min.",
    "Trusts the YAML bounds; MetaModule user-defined controllers are represented by 3 of the 96 identical ones.",
    "DESIGN.md §3 C10",
)
reg(
    "C11",
    "exploration",
    "complete enumeration of single values and option pairs + Hypothesis random assignment sequences; independent bit-packing oracle from the YAML; save/load round trip in both contexts",
    "Bit-disjointness, every representable value of every option alone, all ordered option pairs over edge values, clamps, "
    "inversion and exclusivity are enumerated completely; every case is saved and reloaded stand-alone and inside a project "
    "and the options CHDT is compared byte for byte with a packing computed from the YAML layout.",
    "Trusts the YAML layout and vlib.chunktools' chunk parsing.",
    "DESIGN.md §3 C11",
)

reg(
    "C12",
    "exploration",
    "complete enumeration of (old word, sub-field, new value) triples for the packed words + Hypothesis note/pattern round trips against struct.pack",
    "thorough enumerates all 65536 x 256 x 4 note sub-field setter triples and all 4.4 M visualization triples (exhaustive); quick takes all "
    "old words x 5 new values. Notes and pattern byte images are generated and compared with an independent struct.pack('<BBHHH') "
    "image, the PDTA chunk of the written file, and the reloaded pattern. SMII/SFGS are enumerated completely through save/load.",
    "Cell layout and visualization bit layout taken from the format documentation.",
    "DESIGN.md §3 C12",
)

reg(
    "C07",
    "exploration",
    "model-based testing: generated operation histories (Hypothesis) + complete enumeration of bounded histories, reference model = set of ordered pairs, invariant after every step",
    "All single-pair histories over 3 nodes up to length 5 (thorough; 3 quick) and over 4 nodes up to length 3 (thorough; 2 quick), all two-op "
    "overlap histories with list operands, and random histories over every operator spelling incl. cross-project operands. After each step the "
    "four link tables of every module are checked for mutual consistency slot by slot and the edge set is compared with the model.",
    "Unsupported spellings (~a >> x, plain list on the left of an operator) are not generated.",
    "DESIGN.md §3 C07",
)
reg(
    "C08",
    "exploration",
    "model-based testing with save/load steps inside generated histories + metamorphic file variants (SLnK dropped for all / a subset of modules, SLNK terminator)",
    "Link histories of C07 with the project replaced by its reloaded copy at generated points; per-module tables compared before/after up to "
    "trailing freed slots, C07 invariant on the loaded project, history continues against the model. The final bytes are additionally edited "
    "(slot chunk removed everywhere / for a generated subset, -1 terminator added) and must load to the same graph with consistent tables.",
    "Slot positions are only claimed for files that carry SLnK as written.",
    "DESIGN.md §3 C08",
)

reg(
    "C19",
    "fault_enumeration",
    "Hypothesis-generated edit histories with the failure point of the last bulk edit enumerated completely (every cell / every yield index)",
    "For generated pattern shapes, initial contents and histories of bulk edits, an exception is injected at every call index of the callable "
    "and after every yield of the generator (complete for patterns up to 256 cells); contents must be unchanged after a failure, equal to the "
    "supplied notes after success, and every note must reference its pattern (and resolve note.mod on attached patterns).",
    "The supplied callable returns fresh notes; list identity after a failed edit is not claimed.",
    "DESIGN.md §3 C19",
)

reg(
    "C18",
    "fault_enumeration",
    "fault injection enumerated over every read call, every chunk boundary (nested loads included) and truncation points of every fixture and of generated nested files",
    "For all 52 fixtures and 4 generated files with nested loads, a fault is injected at each read call index and at each chunk boundary "
    "(counted across nested loads), the file is truncated at every chunk boundary and inside headers/payloads, and semantic failures are "
    "provoked; for both initial values of the strictness flag and for stream and path access. After every call the flag must equal its "
    "initial value, every file the library opened must be closed, and strict mode must still reject out-of-range values.",
    "Observation by wrapping Path.open / rv.readers.reader.chunks from the check process; no source hooks.",
    "DESIGN.md §3 C18",
)

reg(
    "C20",
    "exploration",
    "Hypothesis-drawn parameter tuples with the whole 0..32768 input axis enumerated per tuple; containment + monotonicity oracle from the YAML ranges; enumeration of macro-helper targets",
    "The macro helper is called for every (type, controller) target (thorough) and for generated multi-target / 17-target / duplicate-module "
    "calls. For generated (target, window, gain, quantization, curve) tuples a MultiCtl is linked inside a project and every input value "
    "0..32768 is assigned; each delivered value must lie in the target's declared range and the sequence must be monotone in the window's "
    "orientation; a link with an unset mapping must leave its target untouched. convert_value is checked directly on 20x more tuples.",
    "Ranges from the YAML; unit-dependent targets are outside the claim; compact windows within 0..max-min.",
    "DESIGN.md §3 C20",
)

reg(
    "C01",
    "exploration",
    "Hypothesis-generated project construction recipes interpreted through the public API; round-trip oracle on a full public-attribute snapshot + positional/identity invariants",
    "Generated projects (fields over their full integer widths, modules of all 42 types with controllers/options/bindings/payloads, link "
    "operations, patterns/clones/empty slots with note cells, Unicode names, embedded projects, samplers; interior empty module positions via "
    "a blank-and-reload stage) are saved and loaded; the loaded snapshot must equal the original one field by field, module positions must "
    "be as constructed, index/parent/owner identities must hold, and re-saving must be stable.",
    "Equality is defined by vlib.snapshot and its documented normalisations.",
    "DESIGN.md §3 C01",
)
reg(
    "C02",
    "exploration",
    "Hypothesis-generated module recipes for all 42 types; round trip in both serialization contexts + clone + differential between the two writers",
    "Per generated module: Synth round trip, clone(), in-project round trip, and agreement of the stand-alone and in-project encodings on every "
    "field both kinds of file carry; every type is visited by a guaranteed sweep with all controllers assigned, plus random draws.",
    "Equality is defined by vlib.snapshot; x/y/layer/visualization are documented as absent from synth files.",
    "DESIGN.md §3 C02",
)

reg(
    "C05",
    "exploration",
    "Hypothesis-generated files and structure-preserving byte mutants of fixtures/generated files; idempotence oracle over n load/save cycles + purity of save",
    "Every fixture, generated projects and synths, and mutants whose CVAL / option / link / note bytes are replaced by arbitrary (incl. "
    "out-of-range) values are loaded and saved; from Y = save(load(X)) on, n further cycles must reproduce Y byte for byte, saving must not "
    "change the object's snapshot and two saves must be identical. thorough sweeps every CVAL of every fixture over 6 boundary values.",
    "Unloadable mutants are outside the quantifier (counted in evidence).",
    "DESIGN.md §3 C05",
)

reg(
    "C06",
    "exploration",
    "Hypothesis-generated (file, attribute, value) edits drawn from an attribute catalogue of the loaded object; metamorphic oracle (only the edited path changes; saved-and-reloaded state equals edited state)",
    "For fixtures and generated files, 1-2 edits are drawn from the catalogue of serialized attributes present on the loaded object and applied "
    "through the public setters. The snapshot may change only at the edited path (plus declared couplings) and must show the new value; "
    "after save and load the snapshot must equal the edited one, so any replay of original bytes is visible. Every fixture is swept with "
    "12 (quick) / 60 (thorough) generated edits; Sampler and MetaModule payload edits have dedicated shards.",
    "Couplings and non-editable attributes are listed in the check's ASSUMPTIONS; true legacy instruments are outside the domain.",
    "DESIGN.md §3 C06",
)

reg(
    "C14",
    "exploration",
    "model-based testing: Hypothesis-generated operation histories over several projects against a reference model (slot lists + owner map), invariants after every step",
    "Histories of new_module / attach_module / += / attach_pattern / note.mod operations over 2-3 projects, interleaved with save/load and with "
    "reloads that empty generated interior positions, are run against a slot-list model: index/parent/output invariants, lowest-gap placement, "
    "refused foreign attachments leave every project unchanged, re-attach is a no-op, note module references resolve positionally.",
    "attach_module(None) is taken as the public way to append an empty position.",
    "DESIGN.md §3 C14",
)
reg(
    "C17",
    "exploration",
    "Hypothesis-generated object pairs with generated mutation sequences on one of them; non-interference oracle on snapshot and saved bytes of the other",
    "Pairs (A, B) of synth-wrapped modules of every type or of projects, with B constructed independently, of another type, cloned from A or "
    "loaded from the same bytes; catalogue-driven mutations (incl. in-place element mutations of list payloads and link operations) are applied to "
    "A and B's snapshot and saved bytes must not change at any step; for clones also in reverse; a fresh object of A's type constructed "
    "afterwards must equal a pristine one.",
    "B never participates in A's link operations or embedded structures (those couplings are designed).",
    "DESIGN.md §3 C17",
)

reg(
    "C15",
    "exploration",
    "Hypothesis-generated nested MetaModule recipes; round-trip oracle on snapshot + independent chunk-level structure checks",
    "MetaModules nested up to depth 2 (quick) / 4 (thorough) with generated embedded projects, user-controller counts 0..96, mappings onto every "
    "controller kind and dangling targets, labels, re-derived value types and values assigned through user controllers are saved and loaded in "
    "both contexts: snapshot equality (embedded project recursively, mappings, labels, stored values, attached set), 5+n CVALs / 8(5+n) CMID "
    "bytes / no label chunk beyond the count by independent chunk parsing, and a byte-identical second cycle.",
    "Stored (not user-visible) values of user controllers are claimed; mapping controller = 0-based index as the library resolves it.",
    "DESIGN.md §3 C15",
)
reg(
    "C16",
    "exploration",
    "Hypothesis-generated Sampler recipes and legacy byte variants; round-trip oracle + independent fixed-offset decoder of the written records",
    "Generated samplers (slot subsets, arbitrary PCM bytes, all formats/channels, every sample and envelope field over its width, boundary "
    "probes for 12/13/255/256/300 points, note maps, editor fields, effect) are saved, loaded and cloned in both contexts; the written instrument "
    "record, sample records and envelope chunks are decoded independently at their documented offsets and compared with the object; legacy "
    "variants (foreign signature, envelope chunks removed) must load with independently computed converted envelopes and survive save/load.",
    "Record layout from the struct comments in sampler.py + docs offsets.",
    "DESIGN.md §3 C16",
)

reg(
    "C03",
    "exploration",
    "differential testing of every generated output against an independent reference decoder written from the format documentation and the YAML",
    "Every file written for generated projects and synths (C01/C02 strategies, all 42 types swept) is parsed by vlib.refcodec, which shares no "
    "code with the library: structural rules of the documented format are enforced (tiling, order, widths, terminators, counts, record sizes) "
    "and the decoded content must equal the object's public snapshot field by field - this is what exposes errors made symmetrically in "
    "writer and reader.",
    "The decoder's residual trust base (SFGS/SLnK, sampler record structs) is listed in the evidence assumptions.",
    "DESIGN.md §3 C03",
)

reg(
    "C04",
    "exploration",
    "differential testing against an independent reference encoder/decoder + metamorphic structure-preserving file edits (unknown chunks, dropped optional chunks, truncated CVAL lists, permuted headers)",
    "Generated abstract descriptions are encoded by vlib.refcodec's own encoder with generated variations (foreign versions, dropped optional "
    "chunks, truncated CVAL lists, permuted header chunks, unknown chunks at generated positions, interior empty module positions) and the "
    "library's snapshot after loading must equal the description adjusted by the documented defaults; every fixture is compared with the "
    "reference decoder's reading of it and re-loaded under the same edit classes (thorough: an unknown chunk at every position x 3 payloads).",
    "Reference codec trust base listed in evidence; CVAL truncation not applied to MetaModules.",
    "DESIGN.md §3 C04",
)

NOT_APPLICABLE = {}

ALL = ["C%02d" % i for i in range(1, 21)]


def main():
    checks = []
    for pid in ALL:
        if pid not in CHECKS:
            continue
        if not os.path.exists(os.path.join(VERIF, "checks", pid.lower() + ".py")):
            continue
        cat, tech, text, note, ref = CHECKS[pid]
        base = "PYTHONHASHSEED=0 PYTHONDONTWRITEBYTECODE=1 /venv/bin/python /verif/run_check.py %s" % pid
        checks.append(
            {
                "property_id": pid,
                "quick_cmd": base + " --tier quick",
                "thorough_cmd": base + " --tier thorough",
                "evidence_file": "/verif/evidence/%s.json" % pid,
                "replay_cmd_template": base + " --replay {path}",
                "engine": "pbt-runner",
                "level_claimed": {"category": cat, "text": text, "design_ref": ref},
                "level_note": note,
                "technique": tech,
            }
        )
    claimed = {c["property_id"] for c in checks}
    na = []
    for pid in ALL:
        if pid not in claimed:
            na.append(
                {
                    "property_id": pid,
                    "reason": NOT_APPLICABLE.get(pid, "check not built yet (work in progress; the technique applies, see DESIGN.md §3)"),
                }
            )
    doc = {
        "version": 1,
        "setup_cmd": "sh /verif/tools/setup.sh",
        "hooks": {
            "guard": "RADIANT_VOICES_VERIF",
            "enable": "no source hooks: checks import /repo/src/python directly and wrap Path.open / rv.lib.iff.chunks from the check process",
            "baseline_off_cmd": "sh /verif/tools/baseline_off.sh",
            "source_commits": [],
            "add_only": True,
        },
        "engines": [
            {
                "name": "pbt-runner",
                "path": "/verif/run_check.py",
                "serves_properties": sorted(claimed),
                "kind_free_text": "Hypothesis strategies / rule-based state machines, complete enumeration of finite domains and fault enumeration, sharded over 16 processes; explicit oracles per property (vlib/, checks/)",
            }
        ],
        "checks": checks,
        "notes": "All checks: cwd /verif, honour VERIF_SEED and VERIF_TIER, exit 0/1/2 (2 = harness error, never a verdict). known_findings.json lists genuine defects (open/fixed).",
        "not_applicable": na,
    }
    path = os.path.join(VERIF, "MANIFEST.json")
    with open(path, "w") as f:
        json.dump(doc, f, indent=1)
        f.write("\n")
    try:
        import jsonschema

        schema = json.load(open("/root/.vp/MANIFEST.schema.json"))
        jsonschema.validate(doc, schema)
        print("MANIFEST valid; claimed:", sorted(claimed))
    except ImportError:
        print("jsonschema not available; wrote without validation")
    return 0


if __name__ == "__main__":
    sys.exit(main())
